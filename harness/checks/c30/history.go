// C30 — request histories: routing state carried from one request to the next.
//
// A history is a sequence of requests sent to the SAME receiving node of ONE long-lived cluster (every node keeps its
// Router and Registry for the whole history), with one membership/registry transition between consecutive requests.
// The transitions change the registries only through the mutation paths production uses (coordinator.go):
//
//	unhealthy(p)    Registry.UpdateNodeState(p, unhealthy)           in place (heartbeat path); p stays reachable
//	healthy(p)      Registry.UpdateNodeState(p, healthy)             in place; p reachable (again)
//	failed(p)       Get -> UpdateState(dead) -> Register             entry replaced (onRaftNodeUpdated path); p refuses connections
//	promote(p)      Get -> SetWriterState -> Register                onWriterPromoted: the current primary (if any) becomes standby, p primary
//	demote(p)       Get -> SetWriterState(standby) -> Register       primary steps down, nobody promoted yet
//	unregister(p)   Registry.Unregister(p)                           p keeps running and stays reachable (worst case for a stale target)
//	register(p)     Registry.Register(new node)                      p joins as a healthy member with its real role
//	seen-as(p,X)    Registry.Register(new node with role X)          only the RECORDED role changes (stale view of p)
//	rejoin-as(p,X)  Registry.Register(new node with role X)          p restarted with role X: real and recorded role change, p gets a fresh router
//	crash(p)        (no registry change at all)                      p, recorded healthy, starts refusing connections: crashed or restarting
//	                                                                 between two health-check rounds ("crashed-undetected"); the next request
//	                                                                 that selects p runs the router's retry loop
//
// After EVERY request the clauses of judge() are applied with the cluster state as it is at that moment.
package main

import (
	"encoding/json"
	"fmt"
	"os"
	"sort"
	"strings"
	"sync/atomic"

	"github.com/basekick-labs/arc/internal/cluster"
	"github.com/basekick-labs/arc/zzverif/engine/ev"
)

const (
	tUnhealthy = iota
	tFailed
	tHealthy
	tPromote
	tDemote
	tUnregister
	tRegister
	tSeenAs
	tRejoinAs
	tCrash
	nTransOps
)

var transName = [nTransOps]string{"unhealthy", "failed", "healthy", "promote", "demote", "unregister", "register", "seen-as", "rejoin-as", "crash"}

// step is one element of a history: a request (Req) or a transition on peer Peer (index into Nodes, >= 1).
type step struct {
	Req  bool
	Kind int  // request kind
	Op   int  // transition
	Peer int  // transition target
	Role byte // seen-as / rejoin-as: the new role
}

func (s step) render(peerNo func(int) int) string {
	if s.Req {
		return kinds[s.Kind].Name
	}
	if s.Op == tSeenAs || s.Op == tRejoinAs {
		return fmt.Sprintf("%s(peer%d,%s)", transName[s.Op], peerNo(s.Peer), roleName[s.Role])
	}
	return fmt.Sprintf("%s(peer%d)", transName[s.Op], peerNo(s.Peer))
}

type histCfg struct {
	Nodes []nodeCfg // the cluster before the first step; [0] = receiving node
	Steps []step
}

func (h histCfg) clone() histCfg {
	return histCfg{Nodes: append([]nodeCfg{}, h.Nodes...), Steps: append([]step{}, h.Steps...)}
}

// applyModel applies a transition to the model state; false = not applicable (or a no-op) in this state.
func applyModel(nodes []nodeCfg, s step) bool {
	if s.Req || s.Peer < 1 || s.Peer >= len(nodes) {
		return false
	}
	p := &nodes[s.Peer]
	switch s.Op {
	case tUnhealthy:
		if p.Gone || p.Health == 'u' {
			return false
		}
		p.Health = 'u'
	case tFailed:
		if p.Gone || p.Health == 'f' {
			return false
		}
		p.Health = 'f'
	case tHealthy:
		if p.Gone || p.Health == 'h' {
			return false
		}
		p.Health = 'h'
	case tPromote:
		if p.Gone || p.Rec != 'W' || p.WS == 'p' {
			return false
		}
		if o := oldPrimary(nodes, s.Peer); o > 0 {
			nodes[o].WS = 's'
		}
		p.WS = 'p'
	case tDemote:
		if p.Gone || p.Rec != 'W' || p.WS != 'p' {
			return false
		}
		p.WS = 's'
	case tUnregister:
		if p.Gone {
			return false
		}
		p.Gone, p.WS = true, '-'
	case tRegister:
		if !p.Gone {
			return false
		}
		p.Gone, p.Health, p.WS, p.Rec = false, 'h', '-', p.Real
	case tSeenAs:
		if p.Gone || s.Role == p.Rec || roleName[s.Role] == "" {
			return false
		}
		p.Rec, p.WS = s.Role, '-'
	case tRejoinAs:
		if p.Gone || s.Role == p.Real || roleName[s.Role] == "" {
			return false
		}
		p.Real, p.Rec, p.WS, p.Health = s.Role, s.Role, '-', 'h'
	case tCrash:
		if p.Gone || p.Health != 'h' {
			return false
		}
		p.Health = 'x'
	default:
		return false
	}
	return true
}

// oldPrimary: the member other than peer j that is recorded as primary writer (0 = none).
func oldPrimary(nodes []nodeCfg, j int) int {
	for o := 1; o < len(nodes); o++ {
		if o != j && !nodes[o].Gone && nodes[o].Rec == 'W' && nodes[o].WS == 'p' {
			return o
		}
	}
	return 0
}

// applyReal performs the transition on the live cluster: the same change in every node's registry (one shared
// membership view, as in the single-request cases). before/after = model state around the transition.
func (ch *chassis) applyReal(lc *liveCluster, before, after []nodeCfg, s step) {
	j := s.Peer
	id := nodeID(j)
	others := func(x int, f func(reg *cluster.Registry)) {
		for i := 0; i < lc.n; i++ {
			if i != x && lc.regs[i] != nil {
				f(lc.regs[i])
			}
		}
	}
	update := func(x int, f func(n *cluster.Node)) { // coordinator.go: Get (a clone) -> change -> Register (replaces the entry)
		others(x, func(reg *cluster.Registry) {
			n, ok := reg.Get(nodeID(x))
			if !ok {
				ev.Unbound(fmt.Sprintf("history: node %d is not in a registry that should have it (%s)", x, transName[s.Op]))
			}
			f(n)
			if err := reg.Register(n); err != nil {
				ev.Unbound("registry.Register: " + err.Error())
			}
		})
	}
	ownWS := func(x int, st cluster.WriterState) {
		if lc.locals[x] != nil && lc.locals[x].Role == cluster.RoleWriter {
			lc.locals[x].SetWriterState(st)
		}
	}
	register := func() {
		others(j, func(reg *cluster.Registry) {
			if err := reg.Register(recordedNode(j, after[j], true)); err != nil {
				ev.Unbound("registry.Register: " + err.Error())
			}
		})
	}
	switch s.Op {
	case tUnhealthy:
		others(j, func(reg *cluster.Registry) { reg.UpdateNodeState(id, cluster.StateUnhealthy) })
		ch.setDown(j, false)
	case tHealthy:
		others(j, func(reg *cluster.Registry) { reg.UpdateNodeState(id, cluster.StateHealthy) })
		ch.setDown(j, false)
	case tFailed:
		update(j, func(n *cluster.Node) { n.UpdateState(cluster.StateDead) })
		ch.setDown(j, true)
	case tPromote:
		if o := oldPrimary(before, j); o > 0 {
			update(o, func(n *cluster.Node) { n.SetWriterState(cluster.WriterStateStandby) })
			ownWS(o, cluster.WriterStateStandby)
		}
		update(j, func(n *cluster.Node) { n.SetWriterState(cluster.WriterStatePrimary) })
		ownWS(j, cluster.WriterStatePrimary)
	case tDemote:
		update(j, func(n *cluster.Node) { n.SetWriterState(cluster.WriterStateStandby) })
		ownWS(j, cluster.WriterStateStandby)
	case tUnregister:
		others(j, func(reg *cluster.Registry) { reg.Unregister(id) })
	case tRegister:
		register()
		ch.setDown(j, false)
	case tSeenAs:
		register()
	case tRejoinAs:
		register()
		ch.wireNode(lc, after, j)
		ch.setDown(j, false)
	case tCrash:
		ch.setDown(j, true)
	}
}

// transitionsOf lists every applicable transition of the state, restricted to ops. sym: peers that are identical
// in the INITIAL state are interchangeable, so the first transition of a history touches only the first of them.
func transitionsOf(nodes []nodeCfg, ops []int, sym bool) []step {
	var out []step
	scratch := make([]nodeCfg, len(nodes))
	for j := 1; j < len(nodes); j++ {
		if sym {
			dup := false
			for i := 1; i < j; i++ {
				if nodes[i] == nodes[j] {
					dup = true
				}
			}
			if dup {
				continue
			}
		}
		for _, op := range ops {
			roles := []byte{0}
			if op == tSeenAs || op == tRejoinAs {
				roles = roleLetters
			}
			for _, r := range roles {
				s := step{Op: op, Peer: j, Role: r}
				copy(scratch, nodes)
				if applyModel(scratch, s) {
					out = append(out, s)
				}
			}
		}
	}
	return out
}

// histSpace: receiver x every multiset of N-1 initial peers x every request-kind sequence of length Len over Kinds x
// every applicable transition between consecutive requests.
type histSpace struct {
	Name      string
	N, Len    int
	Recv      []nodeCfg
	Peers     []nodeCfg
	Kinds     []int
	Ops       []int
	Desc      string
	configs   int
	histories int64
	requests  int64
}

func (s *histSpace) expand(si int, emit func(cfgItem)) {
	np := s.N - 1
	idx := make([]int, np)
	for _, r := range s.Recv {
		var rec func(pos, from int)
		rec = func(pos, from int) {
			if pos == np {
				it := cfgItem{n: int8(s.N), space: int8(si), hist: true}
				it.nodes[0] = r
				for k := 0; k < np; k++ {
					it.nodes[k+1] = s.Peers[idx[k]]
				}
				emit(it)
				return
			}
			for i := from; i < len(s.Peers); i++ {
				idx[pos] = i
				rec(pos+1, i)
			}
		}
		rec(0, 0)
	}
}

// forEach enumerates the histories of one configuration; visit returns false to stop.
func (s *histSpace) forEach(nodes []nodeCfg, visit func(h histCfg) bool) bool {
	steps := make([]step, 0, 2*s.Len)
	var rec func(cur []nodeCfg, nreq int) bool
	rec = func(cur []nodeCfg, nreq int) bool {
		for _, k := range s.Kinds {
			steps = append(steps, step{Req: true, Kind: k})
			if nreq+1 == s.Len {
				if !visit(histCfg{Nodes: nodes, Steps: append([]step{}, steps...)}) {
					return false
				}
			} else {
				for _, t := range transitionsOf(cur, s.Ops, nreq == 0) {
					nxt := append([]nodeCfg{}, cur...)
					applyModel(nxt, t)
					steps = append(steps, t)
					if !rec(nxt, nreq+1) {
						return false
					}
					steps = steps[:len(steps)-1]
				}
			}
			steps = steps[:len(steps)-1]
		}
		return true
	}
	return rec(nodes, 0)
}

func histPeerSet(healths []byte, withGone bool) []nodeCfg {
	var out []nodeCfg
	for _, role := range roleLetters {
		for _, ws := range recWS(role) {
			for _, h := range healths {
				out = append(out, nodeCfg{Real: role, Rec: role, WS: ws, Health: h, Router: true})
			}
		}
		if withGone {
			out = append(out, nodeCfg{Real: role, Rec: role, WS: '-', Health: 'h', Router: true, Gone: true})
		}
	}
	sort.Slice(out, func(i, j int) bool { return out[i].key() < out[j].key() })
	return out
}

var allOps = []int{tUnhealthy, tFailed, tHealthy, tPromote, tDemote, tUnregister, tRegister, tSeenAs, tRejoinAs, tCrash}

func histSpaces(quick bool) []*histSpace {
	var recv []nodeCfg
	for _, role := range roleLetters {
		recv = append(recv, nodeCfg{Real: role, Rec: role, WS: '-', Health: 'h', Router: true})
	}
	full := histPeerSet([]byte{'h', 'u', 'f'}, true)
	const recvD = "receiving node {standalone, writer, reader, compactor} (router wired, recorded correctly)"
	const peerD = "initial peer {4 roles recorded correctly (writer: primary/standby/none) x healthy/unhealthy/failed, or running but not registered (4 roles)}"
	const transD = "one transition between consecutive requests out of {unhealthy, failed, healthy, promote (current primary becomes standby), demote, unregister, register, seen-as X (recorded role only), rejoin-as X (real+recorded role, fresh router on that peer), crash (a reachable peer recorded healthy starts refusing connections, registries unchanged)} applied to any peer where it changes something"
	var sp []*histSpace
	if quick {
		two := []int{kLP, kQueryShow}
		sp = append(sp, &histSpace{Name: "H2-N2", N: 2, Len: 2, Recv: recv, Peers: full, Kinds: two, Ops: allOps,
			Desc: "2 nodes, 2 requests: " + recvD + " x " + peerD + " x request kinds {write-lp, query-show}^2 x " + transD})
		sp = append(sp, &histSpace{Name: "H2-N3", N: 3, Len: 2, Recv: recv, Peers: full, Kinds: two, Ops: allOps,
			Desc: "3 nodes, 2 requests: " + recvD + " x every multiset of 2 x " + peerD + " x request kinds {write-lp, query-show}^2 x " + transD})
		return sp
	}
	two := []int{kLP, kQueryShow}
	four := []int{kMsgpack, kLP, kQuery, kQueryShow}
	lite := histPeerSet([]byte{'h', 'u'}, false)
	fullX := histPeerSet([]byte{'h', 'u', 'f', 'x'}, true)
	const peerDX = "initial peer {4 roles recorded correctly (writer: primary/standby/none) x healthy/unhealthy/failed/crashed-undetected, or running but not registered (4 roles)}"
	sp = append(sp, &histSpace{Name: "H2-N2", N: 2, Len: 2, Recv: recv, Peers: fullX, Kinds: four, Ops: allOps,
		Desc: "2 nodes, 2 requests: " + recvD + " x " + peerDX + " x request kinds {write-msgpack, write-lp, query, query-show}^2 x " + transD})
	sp = append(sp, &histSpace{Name: "H2-N3", N: 3, Len: 2, Recv: recv, Peers: fullX, Kinds: four, Ops: allOps,
		Desc: "3 nodes, 2 requests: " + recvD + " x every multiset of 2 x " + peerDX + " x request kinds {write-msgpack, write-lp, query, query-show}^2 x " + transD})
	sp = append(sp, &histSpace{Name: "H3-N2", N: 2, Len: 3, Recv: recv, Peers: full, Kinds: two, Ops: allOps,
		Desc: "2 nodes, 3 requests: " + recvD + " x " + peerD + " x request kinds {write-lp, query-show}^3 x " + transD})
	sp = append(sp, &histSpace{Name: "H3-N3", N: 3, Len: 3, Recv: recv, Peers: lite, Kinds: two, Ops: allOps,
		Desc: "3 nodes, 3 requests: " + recvD + " x every multiset of 2 x initial peer {4 roles recorded correctly (writer: primary/standby/none) x healthy/unhealthy} (failed and unregistered peers arise through the transitions) x request kinds {write-lp, query-show}^3 x " + transD})
	return sp
}

// ---------------------------------------------------------------------------------------------
// execution

type stepRes struct {
	Step     int // index into Steps
	Case     caseCfg
	Obs      obs
	Findings []finding
}

// requestRetry re-sends a request whose CLIENT connection broke (never judged; same rule as runRetry).
func (ch *chassis) requestRetry(c caseCfg) (obs, bool) {
	for i := 0; i < 6; i++ {
		o := ch.request(c)
		if o.Err == "" {
			return o, true
		}
		ch.transportErrs++
		ch.lastTransportErr = o.Err
		ch.tr.CloseIdleConnections()
	}
	return obs{}, false
}

// runHist executes the history on one long-lived cluster; ok=false: a transition was not applicable or a request
// stayed indeterminate (what was executed so far is returned).
func (ch *chassis) runHist(h histCfg) ([]stepRes, bool) {
	cur := append([]nodeCfg{}, h.Nodes...)
	lc := ch.wireCluster(cur, true)
	var out []stepRes
	for si, s := range h.Steps {
		if s.Req {
			c := caseCfg{Nodes: append([]nodeCfg{}, cur...), Kind: s.Kind, Hdr: hAbsent}
			o, ok := ch.requestRetry(c)
			if !ok {
				return out, false
			}
			out = append(out, stepRes{Step: si, Case: c, Obs: o, Findings: judge(c, o)})
			continue
		}
		before := append([]nodeCfg{}, cur...)
		if !applyModel(cur, s) {
			return out, false
		}
		ch.applyReal(lc, before, cur, s)
	}
	return out, true
}

// ---------------------------------------------------------------------------------------------
// canonical form, rendering

// stateAfter: model state after all steps (nil if a transition is not applicable).
func (h histCfg) stateAfter() []nodeCfg {
	cur := append([]nodeCfg{}, h.Nodes...)
	for _, s := range h.Steps {
		if !s.Req && !applyModel(cur, s) {
			return nil
		}
	}
	return cur
}

func (h histCfg) valid() bool {
	return len(h.Steps) > 0 && h.Steps[len(h.Steps)-1].Req && h.stateAfter() != nil
}

// canon: leading transitions are absorbed into the initial state; peers sorted by attributes (identical peers: the
// one a transition touches first comes first); transition targets renumbered.
func (h histCfg) canon() histCfg {
	o := h.clone()
	for len(o.Steps) > 0 && !o.Steps[0].Req {
		if !applyModel(o.Nodes, o.Steps[0]) {
			break
		}
		o.Steps = o.Steps[1:]
	}
	np := len(o.Nodes) - 1
	first := make([]int, np+1)
	for p := range first {
		first[p] = len(o.Steps)
	}
	for si, s := range o.Steps {
		if !s.Req && s.Peer >= 1 && s.Peer <= np && first[s.Peer] > si {
			first[s.Peer] = si
		}
	}
	order := make([]int, np)
	for i := range order {
		order[i] = i + 1
	}
	sort.SliceStable(order, func(a, b int) bool {
		ka, kb := o.Nodes[order[a]].key(), o.Nodes[order[b]].key()
		if ka != kb {
			return ka < kb
		}
		return first[order[a]] < first[order[b]]
	})
	nodes := []nodeCfg{o.Nodes[0]}
	newIdx := make([]int, np+1)
	for pos, old := range order {
		nodes = append(nodes, o.Nodes[old])
		newIdx[old] = pos + 1
	}
	o.Nodes = nodes
	for si := range o.Steps {
		if !o.Steps[si].Req {
			o.Steps[si].Peer = newIdx[o.Steps[si].Peer]
		}
	}
	return o
}

func (h histCfg) String() string {
	h = h.canon()
	var st, ps []string
	for _, s := range h.Steps {
		st = append(st, s.render(func(p int) int { return p }))
	}
	for _, p := range h.Nodes[1:] {
		ps = append(ps, p.String())
	}
	return fmt.Sprintf("%s|hdr=absent|recv=%s|peers=[%s]", strings.Join(st, ";"), h.Nodes[0], strings.Join(ps, ","))
}

func (h histCfg) describeSteps() []map[string]any {
	var out []map[string]any
	for _, s := range h.Steps {
		if s.Req {
			out = append(out, map[string]any{"request": kinds[s.Kind].Name})
		} else {
			m := map[string]any{"transition": transName[s.Op], "peer": nodeID(s.Peer)}
			if s.Op == tSeenAs || s.Op == tRejoinAs {
				m["role"] = roleName[s.Role]
			}
			out = append(out, m)
		}
	}
	return out
}

// ---------------------------------------------------------------------------------------------
// violation classes of histories

func stripGone(nodes []nodeCfg) []nodeCfg {
	out := []nodeCfg{nodes[0]}
	for _, p := range nodes[1:] {
		if !p.Gone {
			out = append(out, p)
		}
	}
	return out
}

// histFails runs the history up to n times; a run fails when the LAST request shows oracle kind k (an earlier
// request failing the same oracle is a raw failure of its own, filed when the enumeration gets there; it must not
// mask this one). Returns the finding and how many runs failed.
func (ch *chassis) histFails(h histCfg, k string, n int, stopAtFirst bool, cl *classes) (finding, int) {
	var last finding
	bad := 0
	for i := 0; i < n; i++ {
		atomic.AddInt64(&cl.minRuns, 1)
		res, ok := ch.runHist(h)
		if !ok || len(res) == 0 || res[len(res)-1].Step != len(h.Steps)-1 {
			continue
		}
		if f, is := hasKind(res[len(res)-1].Findings, k); is {
			last = f
			bad++
			if stopAtFirst {
				break
			}
		}
	}
	return last, bad
}

const histTries = 4

// minimiseHist greedily shrinks a failing history (drop steps, drop peers, reset initial attributes) while the same
// oracle still fails at the last request; the third result tells whether the minimal history fails on every execution.
func (ch *chassis) minimiseHist(h histCfg, k string, cl *classes) (histCfg, finding, bool) {
	cur := h.canon()
	f, n := ch.histFails(cur, k, histTries, true, cl)
	if n == 0 {
		return cur, f, false
	}
	try := func(cand histCfg) bool {
		cand = cand.canon()
		if !cand.valid() {
			return false
		}
		// stay with failures that need the history: a candidate whose last request fails on a fresh cluster in its
		// final state as well has slipped into another (single-request) class
		if len(cand.Steps) > 1 && cl.failsSingle(ch, cand, k) {
			return false
		}
		if g, n := ch.histFails(cand, k, histTries, true, cl); n > 0 {
			cur, f = cand, g
			return true
		}
		return false
	}
	for changed := true; changed; {
		changed = false
		// drop a step (never the last request)
		for i := len(cur.Steps) - 2; i >= 0; i-- {
			if i >= len(cur.Steps)-1 {
				continue
			}
			cand := cur.clone()
			cand.Steps = append(cand.Steps[:i], cand.Steps[i+1:]...)
			if try(cand) {
				changed = true
			}
		}
		// drop a peer together with the transitions on it
		for p := len(cur.Nodes) - 1; p >= 1; p-- {
			if p >= len(cur.Nodes) {
				continue
			}
			cand := histCfg{Nodes: append(append([]nodeCfg{}, cur.Nodes[:p]...), cur.Nodes[p+1:]...)}
			for _, s := range cur.Steps {
				if !s.Req {
					if s.Peer == p {
						continue
					}
					if s.Peer > p {
						s.Peer--
					}
				}
				cand.Steps = append(cand.Steps, s)
			}
			if try(cand) {
				changed = true
			}
		}
		// reset initial attributes to their defaults
		for i := 0; i < len(cur.Nodes); i++ {
			n := cur.Nodes[i]
			var alts []nodeCfg
			if n.Gone {
				a := n
				a.Gone = false
				alts = append(alts, a)
			}
			if n.Health != 'h' {
				a := n
				a.Health = 'h'
				alts = append(alts, a)
			}
			if n.stale() {
				a := n
				a.Rec, a.WS = a.Real, '-'
				alts = append(alts, a)
				b := n
				b.Real = b.Rec
				alts = append(alts, b)
			}
			if n.WS != '-' {
				a := n
				a.WS = '-'
				alts = append(alts, a)
			}
			for _, a := range alts {
				cand := cur.clone()
				cand.Nodes[i] = a
				if try(cand) {
					changed = true
					break
				}
			}
		}
	}
	g, bad := ch.histFails(cur, k, 6, false, cl)
	if bad == 0 {
		return cur, f, false
	}
	return cur, g, bad == 6
}

// histReduces: can the raw failing history h (truncated at the failing request) be turned into the minimal history m
// by the minimiser's own steps? Some suffix of h (initial state = h's state at that point) must contain m's steps as
// a subsequence that starts at the suffix's first step and ends at h's last request, under an injective mapping of
// m's peers to h's peers whose attributes reduce.
func histReduces(h, m histCfg) bool {
	if len(m.Steps) == 0 || len(m.Nodes) > len(h.Nodes) {
		return false
	}
	state := append([]nodeCfg{}, h.Nodes...)
	for s := 0; s < len(h.Steps); s++ {
		if embeds(state, h.Steps[s:], m) {
			return true
		}
		if !h.Steps[s].Req && !applyModel(state, h.Steps[s]) {
			return false
		}
	}
	return false
}

func embeds(state []nodeCfg, hs []step, m histCfg) bool {
	if len(hs) < len(m.Steps) || !attrReduces(state[0], m.Nodes[0]) {
		return false
	}
	np := len(m.Nodes) - 1
	phi := make([]int, np+1)
	used := make([]bool, len(state))
	same := func(a, b step) bool { // a: step of h, b: step of m
		if a.Req != b.Req {
			return false
		}
		if a.Req {
			return a.Kind == b.Kind
		}
		return a.Op == b.Op && a.Role == b.Role && a.Peer == phi[b.Peer]
	}
	stepsOK := func() bool {
		last := len(m.Steps) - 1
		if last == 0 {
			return len(hs) == 1 && same(hs[0], m.Steps[0])
		}
		if len(hs) < 2 || !same(hs[0], m.Steps[0]) || !same(hs[len(hs)-1], m.Steps[last]) {
			return false
		}
		mi := 1
		for hi := 1; hi < len(hs)-1 && mi < last; hi++ {
			if same(hs[hi], m.Steps[mi]) {
				mi++
			}
		}
		return mi == last
	}
	var assign func(p int) bool
	assign = func(p int) bool {
		if p > np {
			return stepsOK()
		}
		for j := 1; j < len(state); j++ {
			if !used[j] && attrReduces(state[j], m.Nodes[p]) {
				used[j], phi[p] = true, j
				if assign(p + 1) {
					return true
				}
				used[j] = false
			}
		}
		return false
	}
	return assign(1)
}

// failsSingle: does the last request of h show oracle kind k also without any history, i.e. on a fresh cluster wired in
// h's final state (cached per final state)?
func (cl *classes) failsSingle(ch *chassis, h histCfg, k string) bool {
	final := h.stateAfter()
	if final == nil {
		return false
	}
	single := caseCfg{Nodes: stripGone(final), Kind: h.Steps[len(h.Steps)-1].Kind, Hdr: hAbsent}
	skey := k + "#" + single.key()
	cl.mu.Lock()
	fails, known := cl.singleFails[skey]
	cl.mu.Unlock()
	if !known {
		_, n := ch.failsAny(single, k, minimiseTries, true, cl)
		fails = n > 0
		cl.mu.Lock()
		cl.singleFails[skey] = fails
		cl.mu.Unlock()
	}
	return fails
}

// reportHist files one raw failure of a history (h = the history up to and including the failing request).
func (cl *classes) reportHist(ch *chassis, h histCfg, f finding) {
	final := h.stateAfter()
	if final == nil {
		return
	}
	// 1. not a matter of history at all: the last request fails on a fresh cluster in the final state as well
	if cl.failsSingle(ch, h, f.Kind) {
		cl.report(ch, caseCfg{Nodes: stripGone(final), Kind: h.Steps[len(h.Steps)-1].Kind, Hdr: hAbsent}, f)
		return
	}
	// 2. a class already known
	hc := h.canon()
	cl.mu.Lock()
	for _, m := range cl.histMinimal[f.Kind] {
		if histReduces(hc, m) {
			cl.count[cl.sig[f.Kind+"#H#"+m.String()]]++
			cl.mu.Unlock()
			return
		}
	}
	cl.mu.Unlock()
	// 3. minimise
	m, g, stable := ch.minimiseHist(h, f.Kind, cl)
	if g.Desc == "" {
		g = f
	}
	nreq := 0
	for _, s := range m.Steps {
		if s.Req {
			nreq++
		}
	}
	if nreq == 1 && len(m.Steps) == 1 {
		cl.report(ch, caseCfg{Nodes: stripGone(m.Nodes), Kind: m.Steps[0].Kind, Hdr: hAbsent}, g)
		return
	}
	sig := f.Kind + "|history|" + m.String()
	if !stable {
		sig += "|intermittent"
	}
	cl.mu.Lock()
	defer cl.mu.Unlock()
	if !stable {
		cl.flaky++
	}
	if _, seen := cl.desc[sig]; !seen {
		cl.desc[sig] = "in a request history on one long-lived router: " + g.Desc
		cl.replay[sig] = map[string]any{"minimal_history": m.String(), "nodes": describe(caseCfg{Nodes: m.Nodes}), "steps": m.describeSteps(),
			"first_raw_history": h.String(), "oracle": f.Kind,
			"how": "./check C30 --replay <this file> re-executes minimal_history 5 times (fresh in-process cluster per execution, one long-lived router within it) and prints what every node did at every request"}
		cl.histMinimal[f.Kind] = append(cl.histMinimal[f.Kind], m)
		cl.sig[f.Kind+"#H#"+m.String()] = sig
	}
	cl.count[sig]++
}

// ---------------------------------------------------------------------------------------------
// replay of a history artefact

func loadReplayHist(path string) (histCfg, bool) {
	if path == "" {
		return histCfg{}, false
	}
	b, err := os.ReadFile(path)
	if err != nil {
		return histCfg{}, false
	}
	var f struct {
		Replay struct {
			Nodes []replayNode `json:"nodes"`
			Steps []struct {
				Request    string `json:"request"`
				Transition string `json:"transition"`
				Peer       string `json:"peer"`
				Role       string `json:"role"`
			} `json:"steps"`
		} `json:"replay"`
	}
	if json.Unmarshal(b, &f) != nil || len(f.Replay.Steps) == 0 || len(f.Replay.Nodes) == 0 || len(f.Replay.Nodes) > maxNodes {
		return histCfg{}, false
	}
	var h histCfg
	for _, n := range f.Replay.Nodes {
		nc, ok := n.cfg()
		if !ok {
			return histCfg{}, false
		}
		h.Nodes = append(h.Nodes, nc)
	}
	for _, s := range f.Replay.Steps {
		if s.Request != "" {
			k := -1
			for i := range kinds {
				if kinds[i].Name == s.Request {
					k = i
				}
			}
			if k < 0 {
				return histCfg{}, false
			}
			h.Steps = append(h.Steps, step{Req: true, Kind: k})
			continue
		}
		st := step{Op: -1, Peer: -1}
		for i, n := range transName {
			if n == s.Transition {
				st.Op = i
			}
		}
		for j := 1; j < len(h.Nodes); j++ {
			if nodeID(j) == s.Peer {
				st.Peer = j
			}
		}
		if s.Role != "" {
			st.Role = roleLetter(s.Role)
		}
		if st.Op < 0 || st.Peer < 0 {
			return histCfg{}, false
		}
		h.Steps = append(h.Steps, st)
	}
	return h, h.valid()
}
