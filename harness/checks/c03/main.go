// C03 — Accepted rows are flushed exactly once into their hour partition.
// Stateless model checking of the real ArrowBuffer (sync/atomic/go/channel operations rewritten by
// overlay to the vsched runtime): every schedule of writers x flush workers x periodic-flush thread
// up to a preemption bound, fresh real objects per execution; plus a sequential bounded-exhaustive
// pass over the time-sort and hour-bucket helpers.
package main

import (
	"context"
	"fmt"
	"math"
	"math/big"
	"os"
	"sort"
	"strings"
	"sync"
	"time"

	"github.com/basekick-labs/arc/internal/config"
	"github.com/basekick-labs/arc/internal/ingest"
	"github.com/basekick-labs/arc/zzverif/engine/ev"
	"github.com/basekick-labs/arc/zzverif/engine/sched"
	"github.com/basekick-labs/arc/zzverif/hx"
	"github.com/basekick-labs/arc/zzverif/shim/vclock"
	"github.com/basekick-labs/arc/zzverif/shim/vsched"
	"github.com/basekick-labs/arc/zzverif/shim/vsync"
	"github.com/rs/zerolog"
)

const hourUS = int64(3600) * 1_000_000

type batch struct {
	cols map[string][]interface{}
}

func (b batch) rows() []hx.Row {
	n := len(b.cols["time"])
	out := make([]hx.Row, n)
	for i := 0; i < n; i++ {
		r := hx.Row{}
		for k, c := range b.cols {
			if c[i] != nil {
				r[k] = c[i]
			}
		}
		out[i] = r
	}
	return out
}

func mk(times []int64, extra map[string][]interface{}) batch {
	c := map[string][]interface{}{"time": make([]interface{}, len(times))}
	for i, t := range times {
		c["time"][i] = t
	}
	for k, v := range extra {
		c[k] = v
	}
	return batch{c}
}

type spec struct {
	name    string
	writers [][]batch // per writer thread, its batches in order
	bufSize int
	workers int
	aged    bool // an extra thread runs the age-based flush once
	noFlush bool // skip the explicit FlushAll (Close alone must flush)
}

var base = int64(1_700_000_000) * 1_000_000 // 2023-11-14T22:13:20Z

func specs() []spec {
	f := func(v ...interface{}) []interface{} { return v }
	return []spec{
		{name: "2 writers x 1 row, size trigger at 2", bufSize: 2, workers: 1,
			writers: [][]batch{{mk([]int64{base + 1}, map[string][]interface{}{"v": f(1.5)})}, {mk([]int64{base + 2}, map[string][]interface{}{"v": f(2.5)})}}},
		{name: "2 writers, second adds a column (schema change) ", bufSize: 3, workers: 1,
			writers: [][]batch{{mk([]int64{base + 1}, map[string][]interface{}{"v": f(1.5)})}, {mk([]int64{base + 2}, map[string][]interface{}{"v": f(2.5), "s": f("x")})}}},
		{name: "1 writer x 2 batches + 1 writer, size trigger at 2, 2 workers", bufSize: 2, workers: 2,
			writers: [][]batch{{mk([]int64{base + 1}, map[string][]interface{}{"v": f(1.0)}), mk([]int64{base + 3}, map[string][]interface{}{"v": f(3.0)})}, {mk([]int64{base + 2}, map[string][]interface{}{"v": f(2.0)})}}},
		{name: "multi-hour + pre-1970 batch vs plain writer", bufSize: 4, workers: 1,
			writers: [][]batch{{mk([]int64{base + 5, base + hourUS + 1, -1, -hourUS - 1}, map[string][]interface{}{"v": f(1.0, nil, 3.0, 4.0)})}, {mk([]int64{base + 6}, map[string][]interface{}{"v": f(6.0)})}}},
		{name: "writer vs age-based flush", bufSize: 10, workers: 1, aged: true,
			writers: [][]batch{{mk([]int64{base + 1}, map[string][]interface{}{"v": f(1.5)}), mk([]int64{base + 2}, map[string][]interface{}{"v": f(2.5)})}}},
		{name: "all-null column + sparse column, close without explicit flush", bufSize: 10, workers: 1, noFlush: true,
			writers: [][]batch{{mk([]int64{base + 1, base + 2}, map[string][]interface{}{"v": f(nil, nil), "s": f("a", nil)})}, {mk([]int64{base + 3}, map[string][]interface{}{"v": f(7.0)})}}},
		{name: "one batch straddling the Unix epoch inside (-1h,+1h)", bufSize: 10, workers: 1,
			writers: [][]batch{{mk([]int64{-30 * 60 * 1_000_000, 15 * 60 * 1_000_000, -15 * 60 * 1_000_000, 30 * 60 * 1_000_000}, map[string][]interface{}{"v": f(1.0, 2.0, 3.0, 4.0)})}}},
		{name: "type change of a column between writers", bufSize: 10, workers: 1,
			writers: [][]batch{{mk([]int64{base + 1}, map[string][]interface{}{"v": f(1.5)})}, {mk([]int64{base + 2}, map[string][]interface{}{"v": f("str")})}}},
	}
}

func scenarios() []sched.Scenario {
	var out []sched.Scenario
	for _, sp := range specs() {
		sp := sp
		out = append(out, sched.Scenario{Name: sp.name, Setup: func() (func(), func() sched.Outcome, func()) {
			mem := hx.NewMemBackend()
			vclock.Install(time.Unix(1_700_000_500, 0))
			var accepted []hx.Row
			var werrs []string
			var hmu sync.Mutex // harness bookkeeping only (real lock, no scheduling point): needed by the free-running -race pass
			body := func() {
				cfg := &config.IngestConfig{MaxBufferSize: sp.bufSize, MaxBufferAgeMS: 3600_000, Compression: "snappy", FlushWorkers: sp.workers,
					FlushQueueSize: 16, ShardCount: 1, FlushTimeoutSeconds: 3600, WriteStatistics: true}
				buf := ingest.NewArrowBuffer(cfg, mem, zerolog.Nop())
				var wg vsync.WaitGroup
				for wi, bs := range sp.writers {
					wi, bs := wi, bs
					wg.Add(1)
					vsched.Go(fmt.Sprintf("writer%d", wi), func() {
						defer wg.Done()
						for _, b := range bs {
							err := buf.WriteColumnarDirect(context.Background(), "db", "m", b.cols)
							hmu.Lock()
							if err != nil {
								werrs = append(werrs, err.Error())
							} else {
								accepted = append(accepted, b.rows()...)
							}
							hmu.Unlock()
						}
					})
				}
				if sp.aged {
					wg.Add(1)
					vsched.Go("clock-advance", func() { defer wg.Done(); vclock.Advance(time.Hour + time.Millisecond) })
				}
				wg.Wait()
				if !sp.noFlush {
					buf.FlushAll(context.Background())
				}
				buf.Close()
			}
			check := func() sched.Outcome { return judge(mem, accepted, werrs) }
			return body, check, nil
		}})
	}
	return out
}

func judge(mem *hx.MemBackend, accepted []hx.Row, werrs []string) sched.Outcome {
	paths, files := mem.Snapshot()
	var stored []hx.Row
	var problems []string
	for _, p := range paths {
		rows, _, _, err := hx.ReadParquet(files[p])
		if err != nil {
			return sched.Outcome{Key: "unreadable-file", Violation: "unreadable-parquet-file", Detail: err.Error()}
		}
		// db/m/YYYY/MM/DD/HH/file
		parts := strings.Split(p, "/")
		if len(parts) != 7 || parts[0] != "db" || parts[1] != "m" {
			problems = append(problems, "bad-path")
			continue
		}
		dir := strings.Join(parts[2:6], "/")
		var prev int64 = math.MinInt64
		for _, r := range rows {
			t, ok := r["time"].(int64)
			if !ok {
				problems = append(problems, "row-without-time")
				continue
			}
			h := floorDiv(t, hourUS)
			want := time.Unix(h*3600, 0).UTC().Format("2006/01/02/15")
			if want != dir {
				problems = append(problems, "row-in-wrong-hour-directory")
			}
			if t < prev {
				problems = append(problems, "file-not-time-sorted")
			}
			prev = t
			for k, v := range r {
				if v == nil {
					delete(r, k)
				}
			}
			stored = append(stored, r)
		}
	}
	if d := hx.DiffMultiset(hx.Multiset(accepted), hx.Multiset(stored)); d != "" {
		cls := "rows-differ"
		switch {
		case strings.Contains(d, "missing=[]"):
			cls = "rows-duplicated-or-extra"
		case strings.Contains(d, "extra=[]"):
			cls = "rows-lost"
		}
		problems = append(problems, cls)
		sort.Strings(problems)
		return sched.Outcome{Key: cls, Violation: strings.Join(uniq(problems), "+"), Detail: map[string]any{"diff": d, "files": paths, "write_errors": werrs}}
	}
	if len(problems) > 0 {
		sort.Strings(problems)
		return sched.Outcome{Key: "layout", Violation: strings.Join(uniq(problems), "+"), Detail: paths}
	}
	return sched.Outcome{Key: fmt.Sprintf("ok files=%d accepted=%d rejected=%d", len(paths), len(accepted), len(werrs))}
}

func uniq(s []string) []string {
	var o []string
	for i, x := range s {
		if i == 0 || x != s[i-1] {
			o = append(o, x)
		}
	}
	return o
}

func floorDiv(a, b int64) int64 {
	q := new(big.Int)
	q.Div(big.NewInt(a), big.NewInt(b)) // Euclidean; equals floor for b>0
	return q.Int64()
}

// sequential bounded-exhaustive pass over the sort / bucketing helpers
func helpersPass(run *ev.Run) (cases int) {
	vals := []int64{math.MinInt64, -hourUS - 1, -hourUS, -1, 0, 1, hourUS - 1, hourUS, 1 << 62, math.MaxInt64}
	for _, v := range vals {
		cases++
		if got, want := ingest.HourBucketID(v), floorDiv(v, hourUS); got != want {
			run.Violate(fmt.Sprintf("hour-bucket-not-floor|%d", v), "HourBucketID differs from floor division", map[string]any{"t": v, "got": got, "want": want})
		}
	}
	sv := []int64{math.MinInt64, -1, 0, 1, 1 << 62}
	maxLen := 5
	if !run.Quick() {
		maxLen = 6
	}
	var rec func(cur []int64)
	checkPerm := func(name string, in []int64, p []int) {
		cases++
		if p == nil { // documented: nil = input already sorted (identity permutation)
			p = make([]int, len(in))
			for i := range p {
				p[i] = i
			}
		}
		if len(p) != len(in) {
			run.Violate(name+"-length", "permutation length differs", in)
			return
		}
		seen := make([]bool, len(in))
		for i, x := range p {
			if x < 0 || x >= len(in) || seen[x] {
				run.Violate(name+"-not-a-permutation", "not a permutation", map[string]any{"in": in, "perm": p})
				return
			}
			seen[x] = true
			if i > 0 && in[p[i-1]] > in[x] {
				run.Violate(name+"-not-sorted", "not in non-decreasing time order", map[string]any{"in": in, "perm": p})
				return
			}
		}
	}
	rec = func(cur []int64) {
		if len(cur) > 0 {
			checkPerm("permuteByTime", cur, ingest.VerifPermuteByTime(append([]int64{}, cur...)))
			checkPerm("radixPermuteByTime", cur, ingest.VerifRadixPermuteByTime(append([]int64{}, cur...)))
		}
		if len(cur) == maxLen {
			return
		}
		for _, v := range sv {
			rec(append(cur, v))
		}
	}
	rec(nil)
	// the >=4096 path with 3 distinct values in every rotation
	for rot := 0; rot < 3; rot++ {
		big := make([]int64, 5000)
		for i := range big {
			big[i] = []int64{-1, 1 << 40, 0}[(i+rot)%3] * int64(1+i%2)
		}
		checkPerm("permuteByTime-large", big, ingest.VerifPermuteByTime(append([]int64{}, big...)))
	}
	return cases
}

func main() {
	sched.Main(scenarios)
	run := ev.Start("C03", "model_checking")
	scs := scenarios()
	names := make([]string, len(scs))
	var jobs []sched.Job
	// deviation bounding: every non-default decision (preemption, non-default thread after a block/exit,
	// non-default ready select case) costs 1
	bound := 3
	if !run.Quick() {
		bound = 4
	}
	for i, s := range scs {
		names[i] = s.Name
		jobs = append(jobs, sched.Job{Scenario: i, Bound: bound, FreeCost: 1})
	}
	res, err := sched.RunSharded(names, jobs, 4, 16, run.Deadline, 5*time.Second)
	if err != nil {
		fmt.Println("HARNESS-UNBOUND:", err)
		os.Exit(2)
	}
	var execs int
	var points int64
	outcomes := map[string]bool{}
	complete := true
	var per []map[string]any
	var samples []any
	for _, r := range res {
		execs += r.Execs
		points += r.Points
		complete = complete && r.Complete
		for k := range r.Outcomes {
			outcomes[r.Scenario+"|"+k] = true
		}
		if len(r.Nondet) > 0 {
			ev.Nondeterminism(strings.Join(r.Nondet, "; "))
		}
		for _, cl := range sched.SortedKeys(r.Violations) {
			v := r.Violations[cl]
			run.Violate(cl+"|"+r.Scenario, fmt.Sprintf("schedule with %d preemption(s) breaks the property (%d schedules in this class)", v.Preemptions, v.Count),
				map[string]any{"scenario": r.Scenario, "choices": v.Choices, "trace": v.Trace, "detail": v.Detail})
		}
		per = append(per, map[string]any{"scenario": r.Scenario, "bound": r.Bound, "schedules": r.Execs, "points": r.Points, "max_points": r.MaxPoints,
			"outcomes": r.Outcomes, "deadlocks": r.Deadlocks, "stuck": r.Stuck, "diverged": r.Diverged, "foreign_calls": r.Foreign, "complete": r.Complete})
		if len(r.Sample) > 0 && len(samples) < 3 {
			samples = append(samples, map[string]any{"scenario": r.Scenario, "longest_schedule": r.Sample})
		}
		for _, d := range r.DivSamples {
			fmt.Println("  diverged:", d)
		}
		fmt.Printf("scenario %q: bound=%d schedules=%d points=%d outcomes=%d stuck=%d diverged=%d foreign=%d complete=%v\n", r.Scenario, r.Bound, r.Execs, r.Points, len(r.Outcomes), r.Stuck, r.Diverged, r.Foreign, r.Complete)
	}
	hc := helpersPass(run)
	run.Coverage["states"] = len(outcomes)
	run.Coverage["transitions"] = points
	run.Coverage["traces_validated_against_impl"] = execs
	run.Coverage["schedules"] = execs
	run.Coverage["deviation_bound_completed"] = bound
	run.Coverage["samples"] = samples
	run.Coverage["exhaustive"] = complete
	run.Coverage["scenarios"] = per
	run.Coverage["helper_cases"] = hc
	run.Coverage["explanation"] = "states = distinct (scenario, observable outcome) pairs; transitions = scheduling points executed; every explored schedule is a run of the real ArrowBuffer (traces_validated_against_impl = schedules)"
	run.Assume("threads: <=2 writers + <=2 flush workers + periodic-flush thread + main; metrics atomics are not scheduling points; storage is an in-memory backend whose calls are atomic steps")
	run.Assume("time inside internal/ingest is the virtual clock: it advances 1µs per reading and by an explicit Advance(maxAge) event that fires the real flush timer")
	run.Finish()
}
