package main

import (
	"bytes"
	"fmt"
	"io"
	"net/http/httptest"
	"os"
	"time"

	"github.com/basekick-labs/arc/internal/api"
	"github.com/basekick-labs/arc/internal/config"
	"github.com/basekick-labs/arc/internal/ingest"
	"github.com/basekick-labs/arc/internal/wal"
	"github.com/basekick-labs/arc/zzverif/hx"
	"github.com/gofiber/fiber/v2"
	"github.com/rs/zerolog"
)

func main() {
	dir := "/dev/shm/dbgwal"
	os.RemoveAll(dir)
	lg := zerolog.New(os.Stderr).Level(zerolog.WarnLevel)
	w, _ := wal.NewWriter(&wal.WriterConfig{WALDir: dir, SyncMode: wal.SyncModeAsync, Logger: lg})
	buf := ingest.NewArrowBuffer(&config.IngestConfig{MaxBufferSize: 1000000, MaxBufferAgeMS: 3600000, Compression: "snappy", FlushWorkers: 1, FlushQueueSize: 4, ShardCount: 1}, hx.NewMemBackend(), lg)
	buf.SetWAL(w)
	app := fiber.New(fiber.Config{DisableStartupMessage: true})
	api.NewLineProtocolHandler(buf, lg).RegisterRoutes(app)
	hr := httptest.NewRequest("POST", "/api/v1/write/line-protocol", bytes.NewReader([]byte(os.Args[1])))
	resp, err := app.Test(hr, 10000)
	b, _ := io.ReadAll(resp.Body)
	fmt.Println(resp.StatusCode, err, string(b))
	time.Sleep(50 * time.Millisecond)
	w.Close()
	fmt.Println(w.Stats()["total_entries"])
	os.RemoveAll(dir)
}
