// C22 — Cluster state machine: replay determinism and snapshot fidelity.
// Explicit-state BFS over the real ClusterFSM.Apply / Snapshot / Persist / Restore.
package main

import (
	"encoding/json"
	"fmt"
	"sort"
	"strings"
	"sync"

	"github.com/basekick-labs/arc/zzverif/engine/ev"
	"github.com/basekick-labs/arc/zzverif/engine/xstate"
	"github.com/basekick-labs/arc/zzverif/fsmx"
)

type scenario struct {
	name  string
	seed  []fsmx.Cmd
	alpha []fsmx.Cmd
	depth int
}

type pre struct {
	oracle, keys, last string
}

var (
	mu       sync.Mutex
	reps     = map[pre][]int{} // shortest history per pre-class
	repsScen = map[pre]*scenario{}
	inherit  sync.Map // succKey -> map[string]bool (state-oracle classes the parent already had)
	checks   = map[string]int64{}
)

func count(k string, n int64) { mu.Lock(); checks[k] += n; mu.Unlock() }

func report(sc *scenario, oracle, keys string, hist []int) {
	last := ""
	if len(hist) > 0 {
		last = sc.alpha[hist[len(hist)-1]].Name
	}
	p := pre{oracle, keys, last}
	mu.Lock()
	if old, ok := reps[p]; !ok || len(hist) < len(old) {
		reps[p] = append([]int{}, hist...)
		repsScen[p] = sc
	}
	mu.Unlock()
}

func diffKeys(a, b fsmx.Dump) string {
	var ks []string
	for k := range a {
		x, _ := json.Marshal(a[k])
		y, _ := json.Marshal(b[k])
		if string(x) != string(y) {
			ks = append(ks, k)
		}
	}
	for k := range b {
		if _, ok := a[k]; !ok {
			ks = append(ks, k)
		}
	}
	sort.Strings(ks)
	return strings.Join(ks, ",")
}

// stateOracles evaluates the per-state oracles on history hist and returns the violated classes.
func stateOracles(sc *scenario, hist []int) map[string]bool {
	out := map[string]bool{}
	f := fsmx.Replay(sc.alpha, sc.seed, hist)
	d, key := fsmx.Canon(f)
	for _, mm := range fsmx.IndexMismatches(d) {
		out["index-consistency|"+strings.SplitN(mm, ":", 2)[0]] = true
	}
	// snapshot fidelity
	b, err := fsmx.SnapshotBytes(f)
	if err != nil {
		out["snapshot-error|"+err.Error()] = true
		return out
	}
	r, err := fsmx.RestoreFrom(b)
	if err != nil {
		out["restore-error|"+err.Error()] = true
		return out
	}
	rd, rkey := fsmx.Canon(r)
	if rkey != key {
		out["snapshot-fidelity|"+diffKeys(d, rd)] = true
	}
	// snapshot at every proper prefix, then apply the rest
	for k := 0; k < len(hist); k++ {
		pf := fsmx.Replay(sc.alpha, sc.seed, hist[:k])
		pb, err := fsmx.SnapshotBytes(pf)
		if err != nil {
			continue
		}
		pr, err := fsmx.RestoreFrom(pb)
		if err != nil {
			continue
		}
		idx := uint64(len(sc.seed) + k)
		for _, h := range hist[k:] {
			idx++
			sc.alpha[h].Apply(pr, idx)
		}
		pd, pkey := fsmx.Canon(pr)
		if pkey != key {
			out[fmt.Sprintf("replay-from-snapshot|%s", diffKeys(d, pd))] = true
		}
	}
	count("prefix_splits", int64(len(hist)))
	return out
}

func failsWith(sc *scenario, class string) func([]int) bool {
	return func(h []int) bool {
		if strings.HasPrefix(class, "T:") {
			if len(h) == 0 {
				return false
			}
			return transitionOracles(sc, h[:len(h)-1], h[len(h)-1])[class]
		}
		return stateOracles(sc, h)[class]
	}
}

// transitionOracles evaluates the per-transition oracles for hist --c-->.
func transitionOracles(sc *scenario, hist []int, c int) map[string]bool {
	out := map[string]bool{}
	idx := uint64(len(sc.seed) + len(hist) + 1)
	cmd := sc.alpha[c]
	f := fsmx.Replay(sc.alpha, sc.seed, hist)
	pd, pkey := fsmx.Canon(f)
	res := cmd.Apply(f, idx)
	sd, skey := fsmx.Canon(f)
	// same step from a restored snapshot of the pre-state (only judged when the restore itself was
	// faithful; an unfaithful restore is the state oracle's finding, not this step's)
	g := fsmx.Replay(sc.alpha, sc.seed, hist)
	if b, err := fsmx.SnapshotBytes(g); err == nil {
		if r, err := fsmx.RestoreFrom(b); err == nil {
			if _, k0 := fsmx.Canon(r); k0 == pkey {
				res2 := cmd.Apply(r, idx)
				rd, rkey := fsmx.Canon(r)
				if rkey != skey {
					out["T:step-after-restore|"+diffKeys(sd, rd)] = true
				}
				if (res == nil) != (res2 == nil) {
					out["T:result-after-restore"] = true
				}
			}
		}
	}
	if cmd.Batch {
		_, isErr := res.(error)
		if isErr {
			if skey != pkey {
				out["T:batch-partial-on-error|"+diffKeys(pd, sd)] = true
			}
		} else {
			// success: must equal applying each member individually at the same log index
			h := fsmx.Replay(sc.alpha, sc.seed, hist)
			for _, s := range cmd.Sub {
				s.Apply(h, idx)
			}
			hd, hkey := fsmx.Canon(h)
			if hkey != skey {
				out["T:batch-not-all|"+diffKeys(sd, hd)] = true
			}
		}
		count("batch_checks", 1)
	}
	return out
}


func main() {
	run := ev.Start("C22", "model_checking")
	quick := run.Quick()
	nodes := fsmx.NodeCmds([]string{"n1"}, map[string]string{"n1": "writer"})
	aAlpha := append(append(append(append([]fsmx.Cmd{}, nodes...), fsmx.FileCmds()...), fsmx.TokenCmds([]int64{1, 2})...), fsmx.MalformedCmds()...)
	bAlpha := fsmx.RBACCmds([]int64{2, 7, 9}, []int64{3, 8, 9}, []int64{4, 9}, []int64{5, 10}, []int64{1})
	cAlpha := append(fsmx.RBACCmds([]int64{1, 2}, []int64{2, 3}, []int64{3, 4}, []int64{4, 5}, []int64{1, 2}), fsmx.TokenCmds([]int64{1})[:1]...)
	scs := []*scenario{
		{name: "A:nodes+files+tokens from empty", alpha: aAlpha, depth: pick(quick, 4, 5)},
		{name: "B:RBAC from full hierarchy", seed: fsmx.HierarchySeed(), alpha: bAlpha, depth: pick(quick, 3, 4)},
		{name: "C:RBAC+token from empty", alpha: cAlpha, depth: pick(quick, 4, 5)},
	}
	samples := ev.NewSamples(6)
	totalStates, totalTrans := 0, int64(0)
	complete := true
	var perScenario []map[string]any
	for _, sc := range scs {
		sc := sc
		res := xstate.BFS(xstate.Config{NCmds: len(sc.alpha), MaxDepth: sc.depth, Stop: run.TimeUp,
			Expand: func(hist []int, wantKey string, leaf bool, visit func(int, string)) {
				f := fsmx.Replay(sc.alpha, sc.seed, hist)
				_, key := fsmx.Canon(f)
				key = fmt.Sprintf("%d|%s", len(hist), key)
				if wantKey != "" && key != wantKey {
					ev.Nondeterminism(fmt.Sprintf("C22 replay of %v produced a different state", fsmx.Names(sc.alpha, hist)))
				}
				viol := stateOracles(sc, hist)
				var inh map[string]bool
				if v, ok := inherit.Load(wantKey); ok {
					inh = v.(map[string]bool)
				}
				for cl := range viol {
					if !inh[cl] {
						report(sc, cl, "", hist)
					}
				}
				if len(hist) == sc.depth {
					samples.Add(fsmx.Names(sc.alpha, hist))
				}
				if leaf {
					return
				}
				for c := range sc.alpha {
					for cl := range transitionOracles(sc, hist, c) {
						report(sc, cl, "", append(append([]int{}, hist...), c))
					}
					g := fsmx.Replay(sc.alpha, sc.seed, hist)
					sc.alpha[c].Apply(g, uint64(len(sc.seed)+len(hist)+1))
					_, sk := fsmx.Canon(g)
					sk = fmt.Sprintf("%d|%s", len(hist)+1, sk)
					if len(viol) > 0 {
						inherit.LoadOrStore(sk, viol)
					}
					visit(c, sk)
				}
			}})
		totalStates += res.States
		totalTrans += res.Transitions
		complete = complete && res.Complete
		perScenario = append(perScenario, map[string]any{"scenario": sc.name, "alphabet": len(sc.alpha), "seed_len": len(sc.seed),
			"depth": sc.depth, "states": res.States, "transitions": res.Transitions, "per_depth_frontier": res.PerDepth, "complete": res.Complete})
		fmt.Printf("scenario %q: alphabet=%d depth=%d states=%d transitions=%d complete=%v\n", sc.name, len(sc.alpha), sc.depth, res.States, res.Transitions, res.Complete)
	}
	// minimise one representative per pre-class, then classify
	for p, h := range reps {
		sc := repsScen[p]
		min := ev.Minimize(h, failsWith(sc, p.oracle))
		names := fsmx.Names(sc.alpha, min)
		seedNote := ""
		if len(sc.seed) > 0 {
			seedNote = "seed=hierarchy;"
		}
		run.Violate(p.oracle+"|"+seedNote+strings.Join(names, ";"), "oracle "+p.oracle+" fails after this command history (log index = position)",
			map[string]any{"scenario": sc.name, "seed": cmdNames(sc.seed), "history": names, "found_at": fsmx.Names(sc.alpha, h)})
	}
	run.Coverage["states"] = totalStates
	run.Coverage["transitions"] = totalTrans
	run.Coverage["traces_validated_against_impl"] = totalTrans
	run.Coverage["samples"] = samples.List()
	run.Coverage["exhaustive"] = complete
	run.Coverage["scenarios"] = perScenario
	run.Coverage["oracle_evaluations"] = checks
	run.Coverage["explanation"] = "every transition is a call of the real ClusterFSM.Apply on a fresh FSM after replaying the history; states de-duplicated by canonical dump of primaries+indexes (+ next log index)"
	run.Assume("universe: 1 node, 2 file paths (+1 invalid), 2 databases, tokens a/b with shared prefix, 2-3 ids per RBAC entity type; depth bound per scenario as reported")
	run.Assume("hashicorp/raft itself (log replication, snapshot scheduling) is not explored; the FSM is driven directly with committed logs")
	run.Finish()
}

func pick(q bool, a, b int) int {
	if q {
		return a
	}
	return b
}

func cmdNames(cs []fsmx.Cmd) []string {
	var o []string
	for _, c := range cs {
		o = append(o, c.Name)
	}
	return o
}
