// C22 — Cluster state machine: replay determinism and snapshot fidelity.
// Explicit-state BFS over the real ClusterFSM.Apply / Snapshot / Persist / Restore, followed by two
// exhaustive product passes over the recorded reachable states:
//   - snapshot timing  (Snapshot() handle at s, more commands applied, THEN Persist -> must still be s)
//   - restore target   (snapshot of s restored onto an FSM that already replayed another history h')
package main

import (
	"bytes"
	"encoding/json"
	"fmt"
	"runtime/debug"
	"sort"
	"strings"
	"sync"

	"github.com/basekick-labs/arc/zzverif/engine/ev"
	"github.com/basekick-labs/arc/zzverif/engine/xstate"
	"github.com/basekick-labs/arc/zzverif/fsmx"
)

type scenario struct {
	name  string
	seed  []fsmx.Cmd
	alpha []fsmx.Cmd
	depth int
	recs  [][]rec // recorded distinct reachable states, by depth
}

// rec is one distinct reachable state: its representative history and the bytes of an immediate
// Snapshot+Persist taken in it.
type rec struct {
	hist []int
	b    []byte
	fp   uint64 // fingerprint of the state's dump (vacuity counters only)
}

type pre struct {
	oracle, keys, last string
}

var (
	mu       sync.Mutex
	reps     = map[pre][]int{} // shortest history per pre-class
	repsScen = map[pre]*scenario{}
	inherit  sync.Map // succKey -> map[string]bool (state-oracle classes the parent already had)
	checks   = map[string]int64{}
)

func count(k string, n int64) { mu.Lock(); checks[k] += n; mu.Unlock() }

func report(sc *scenario, oracle, keys string, hist []int) {
	last := ""
	if len(hist) > 0 {
		last = sc.alpha[hist[len(hist)-1]].Name
	}
	p := pre{oracle, keys, last}
	mu.Lock()
	if old, ok := reps[p]; !ok || fsmx.LessHist(hist, old) {
		reps[p] = append([]int{}, hist...)
		repsScen[p] = sc
	}
	mu.Unlock()
}

func diffKeys(a, b fsmx.Dump) string {
	var ks []string
	for k := range a {
		x, _ := json.Marshal(a[k])
		y, _ := json.Marshal(b[k])
		if string(x) != string(y) {
			ks = append(ks, k)
		}
	}
	for k := range b {
		if _, ok := a[k]; !ok {
			ks = append(ks, k)
		}
	}
	sort.Strings(ks)
	return strings.Join(ks, ",")
}

// stateCtx is what the per-transition oracles need to know about the pre-state (computed once per state).
type stateCtx struct {
	d    fsmx.Dump
	key  string
	fp   uint64 // fingerprint of the raw dump (vacuity counter only)
	b    []byte // immediate Snapshot+Persist in this state (nil if that failed)
	rd   fsmx.Dump
	rkey string // canonical state of b restored into a fresh FSM ("" if snapshot/restore failed)
}

func (c *stateCtx) faithful() bool { return c.b != nil && c.rkey == c.key }

// ref returns the canonical state of the immediate snapshot restored into a fresh FSM (lazily for
// contexts rebuilt from a recorded state).
func (c *stateCtx) ref() (fsmx.Dump, string) {
	if c.rkey == "" && c.b != nil {
		if r, err := fsmx.RestoreFrom(c.b); err == nil {
			c.rd, c.rkey = fsmx.Canon(r)
		}
	}
	return c.rd, c.rkey
}

// stateOracles evaluates the per-state oracles on history hist and returns the violated classes.
func stateOracles(sc *scenario, hist []int) (map[string]bool, *stateCtx) {
	out := map[string]bool{}
	f := fsmx.Replay(sc.alpha, sc.seed, hist)
	d, key := fsmx.Canon(f)
	ctx := &stateCtx{d: d, key: key, fp: fsmx.Fingerprint(f)}
	for _, mm := range fsmx.IndexMismatches(d) {
		out["index-consistency|"+strings.SplitN(mm, ":", 2)[0]] = true
	}
	// snapshot fidelity
	b, err := fsmx.SnapshotBytes(f)
	if err != nil {
		out["snapshot-error|"+err.Error()] = true
		return out, ctx
	}
	r, err := fsmx.RestoreFrom(b)
	if err != nil {
		out["restore-error|"+err.Error()] = true
		return out, ctx
	}
	ctx.b = b
	ctx.rd, ctx.rkey = fsmx.Canon(r)
	if ctx.rkey != key {
		out["snapshot-fidelity|"+diffKeys(d, ctx.rd)] = true
	}
	// snapshot at every proper prefix, then apply the rest
	for k := 0; k < len(hist); k++ {
		pf := fsmx.Replay(sc.alpha, sc.seed, hist[:k])
		pb, err := fsmx.SnapshotBytes(pf)
		if err != nil {
			continue
		}
		pr, err := fsmx.RestoreFrom(pb)
		if err != nil {
			continue
		}
		idx := uint64(len(sc.seed) + k)
		for _, h := range hist[k:] {
			idx++
			sc.alpha[h].Apply(pr, idx)
		}
		pd, pkey := fsmx.Canon(pr)
		if pkey != key {
			out[fmt.Sprintf("replay-from-snapshot|%s", diffKeys(d, pd))] = true
		}
	}
	count("prefix_splits", int64(len(hist)))
	return out, ctx
}

func failsWith(sc *scenario, class string) func([]int) bool {
	return func(h []int) bool {
		if strings.HasPrefix(class, "T:") {
			if len(h) == 0 {
				return false
			}
			o, _, _ := transitionOracles(sc, h[:len(h)-1], h[len(h)-1], nil)
			return o[class]
		}
		o, _ := stateOracles(sc, h)
		return o[class]
	}
}

// transitionOracles evaluates the per-transition oracles for hist --c-->. It returns the violated
// T: classes, the canonical key of the successor, and the snapshot-timing class ("" = held) of the
// length-1 continuation c (handle taken in the pre-state, c applied, then Persist).
func transitionOracles(sc *scenario, hist []int, c int, ctx *stateCtx) (map[string]bool, string, string) {
	out := map[string]bool{}
	if ctx == nil {
		_, ctx = stateOracles(sc, hist)
	}
	idx := uint64(len(sc.seed) + len(hist) + 1)
	cmd := sc.alpha[c]
	f := fsmx.Replay(sc.alpha, sc.seed, hist)
	sn, snErr := fsmx.Handle(f) // handle taken in the pre-state, persisted only after the step
	res := cmd.Apply(f, idx)
	sd, skey := fsmx.Canon(f)
	pit := ""
	if snErr == nil && ctx.b != nil {
		pit = judgeLate(ctx, sn, skey != ctx.key)
	}
	// same step from a restored snapshot of the pre-state (only judged when the restore itself was
	// faithful; an unfaithful restore is the state oracle's finding, not this step's)
	if ctx.faithful() {
		if r, err := fsmx.RestoreFrom(ctx.b); err == nil {
			res2 := cmd.Apply(r, idx)
			rd, rkey := fsmx.Canon(r)
			if rkey != skey {
				out["T:step-after-restore|"+diffKeys(sd, rd)] = true
			}
			if (res == nil) != (res2 == nil) {
				out["T:result-after-restore"] = true
			}
		}
	}
	if cmd.Batch {
		_, isErr := res.(error)
		if isErr {
			if skey != ctx.key {
				out["T:batch-partial-on-error|"+diffKeys(ctx.d, sd)] = true
			}
		} else {
			// success: must equal applying each member individually at the same log index
			h := fsmx.Replay(sc.alpha, sc.seed, hist)
			for _, s := range cmd.Sub {
				s.Apply(h, idx)
			}
			hd, hkey := fsmx.Canon(h)
			if hkey != skey {
				out["T:batch-not-all|"+diffKeys(sd, hd)] = true
			}
		}
		count("batch_checks", 1)
	}
	return out, skey, pit
}

// ---- oracle: a snapshot is a point-in-time image ---------------------------------------------------
//
// hashicorp/raft calls FSM.Snapshot() while no Apply runs, and FSMSnapshot.Persist() later, on
// another goroutine, concurrently with further Apply calls. So for state s and continuation c:
// handle := Snapshot() in s; apply c to the SAME fsm; Persist(handle); Restore into a fresh FSM
// must give s (not s+c, not a mixture).

// judgeLate persists a handle taken in ctx's state after the FSM moved on, and compares with the
// immediate snapshot of that state. Persist is json.Marshal (sorted keys), so byte-identical streams
// restore identically and that restore was already judged by snapshot-fidelity in this state; only
// a differing stream is restored and compared canonically (so a benign byte difference cannot alarm).
func judgeLate(ctx *stateCtx, sn fsmx.Snapshot, mutated bool) string {
	lb, err := fsmx.PersistHandle(sn)
	count("pit_evaluations", 1)
	if mutated {
		count("pit_continuation_changed_state", 1)
	}
	if err != nil {
		return "snapshot-not-point-in-time|late-persist-error"
	}
	if bytes.Equal(lb, ctx.b) {
		return ""
	}
	count("pit_stream_differs_full_restore", 1)
	r, err := fsmx.RestoreFrom(lb)
	if err != nil {
		return "snapshot-not-point-in-time|late-restore-error"
	}
	rd, rkey := fsmx.Canon(r)
	if wd, wkey := ctx.ref(); rkey != wkey {
		return "snapshot-not-point-in-time|" + diffKeys(wd, rd)
	}
	return ""
}

// pointInTime evaluates the oracle for (hist, cont) from scratch (used by the length-2 pass and by
// the minimiser).
func pointInTime(sc *scenario, hist, cont []int, ctx *stateCtx) string {
	if ctx == nil {
		_, ctx = stateOracles(sc, hist)
	}
	if ctx.b == nil {
		return ""
	}
	f := fsmx.Replay(sc.alpha, sc.seed, hist)
	sn, err := fsmx.Handle(f)
	if err != nil {
		return ""
	}
	idx := uint64(len(sc.seed) + len(hist))
	for _, c := range cont {
		idx++
		sc.alpha[c].Apply(f, idx)
	}
	return judgeLate(ctx, sn, fsmx.Fingerprint(f) != ctx.fp)
}

type pitCase struct {
	sc         *scenario
	hist, cont []int
}

var pitReps = map[pre]pitCase{}

func kind(name string) string { return strings.SplitN(name, "(", 2)[0] }

func reportPit(sc *scenario, class string, hist, cont []int) {
	p := pre{class, "", kind(sc.alpha[cont[len(cont)-1]].Name)}
	all := append(append([]int{}, hist...), cont...)
	mu.Lock()
	old, ok := pitReps[p]
	if !ok || fsmx.LessHist(all, append(append([]int{}, old.hist...), old.cont...)) {
		pitReps[p] = pitCase{sc, append([]int{}, hist...), append([]int{}, cont...)}
	}
	mu.Unlock()
}

// ---- oracle: Restore replaces the state, whatever the target held ---------------------------------
//
// InstallSnapshot on a lagging follower calls Restore on an FSM that already holds state. For the
// snapshot of s and every target history h' (all reachable states up to a depth, the proper prefixes
// of s's own history, and two "rich" targets holding every kind of object), the restored target must
// be the same state as the snapshot restored into a fresh FSM (which snapshot-fidelity ties to s),
// and the paginated manifest listing (sorted-key cache, warmed on the target before the restore)
// must list exactly s's files.

type target struct {
	names []string
	cmds  []fsmx.Cmd
	fp    uint64 // fingerprint of the target before the restore (vacuity count: how often it held another state)
}

func mkTarget(sc *scenario, hist []int) target {
	t := target{}
	for _, c := range sc.seed {
		t.cmds = append(t.cmds, c)
	}
	if len(sc.seed) > 0 {
		t.names = append(t.names, "seed=hierarchy")
	}
	for _, h := range hist {
		t.cmds = append(t.cmds, sc.alpha[h])
		t.names = append(t.names, sc.alpha[h].Name)
	}
	return t
}

// richTargets hold objects of every kind, whatever the scenario's own alphabet can build.
func richTargets() []target {
	n := fsmx.NodeCmds([]string{"n1", "n2"}, map[string]string{"n1": "writer", "n2": "writer"})
	byName := func(cs []fsmx.Cmd, name string) fsmx.Cmd {
		for _, c := range cs {
			if c.Name == name {
				return c
			}
		}
		panic("no command " + name)
	}
	fc, tc := fsmx.FileCmds(), fsmx.TokenCmds([]int64{1})
	a := []fsmx.Cmd{byName(n, "AddNode(n1,writer)"), byName(n, "AddNode(n2,writer)"), byName(n, "Promote(n2)"), byName(n, "AssignCompactor(n2)"),
		byName(fc, "Reg(P1,db2)"), byName(fc, "Reg(P2,db2)"), byName(tc, "CreateToken(b,p)")}
	mk := func(cs []fsmx.Cmd) target {
		t := target{cmds: cs}
		for _, c := range cs {
			t.names = append(t.names, c.Name)
		}
		return t
	}
	// the hierarchy goes first: its commands refer to ids stamped from log positions 1..8
	out := []target{mk(append(append([]fsmx.Cmd{}, a...), byName(tc, "CreateToken(a,q)"))), mk(append(append([]fsmx.Cmd{}, fsmx.HierarchySeed()...), a...))}
	for i := range out {
		fsmx.Prepare(out[i].cmds)
		f := fsmx.Build(out[i].cmds)
		out[i].fp = fsmx.Fingerprint(f)
		d, _ := fsmx.Canon(f)
		want := []string{"nodes", "primaryWriterID", "activeCompactorID", "files", "tokens"}
		if i == 1 {
			want = append(want, "organizations", "teams", "roles", "measurementPermissions", "tokenMemberships")
		}
		for _, k := range want {
			if x, _ := json.Marshal(d[k]); len(x) <= 2 {
				ev.Unbound("C22 rich restore target " + fmt.Sprint(i) + " holds no " + k + " (alphabet drifted)")
			}
		}
	}
	return out
}

type freshRef struct {
	raw     string
	d       fsmx.Dump
	key     string
	listing string
}

func mkFreshRef(b []byte) *freshRef {
	fr, err := fsmx.RestoreFrom(b)
	if err != nil {
		return nil
	}
	ref := &freshRef{raw: fsmx.Raw(fr)}
	ref.listing = strings.Join(fsmx.Listing(fr), ",")
	return ref
}

// restoreOnto returns the violated classes of restoring snapshot bytes b (fresh-restore reference ref)
// onto an FSM that replayed tcmds.
func restoreOnto(b []byte, ref *freshRef, tcmds []fsmx.Cmd) []string {
	t := fsmx.Build(tcmds)
	fsmx.Listing(t) // the follower served a manifest listing before: sorted-key cache is populated
	if err := fsmx.RestoreOnto(t, b); err != nil {
		return []string{"restore-onto-nonfresh-error|" + err.Error()}
	}
	var out []string
	if raw := fsmx.Raw(t); raw != ref.raw {
		if ref.d == nil {
			fr, _ := fsmx.RestoreFrom(b)
			d, k := fsmx.Canon(fr)
			ref.d, ref.key = d, k // ref belongs to one worker
		}
		td, tk := fsmx.Canon(t)
		if tk != ref.key {
			out = append(out, "restore-onto-nonfresh-differs|"+diffKeys(ref.d, td))
		}
	}
	if l := strings.Join(fsmx.Listing(t), ","); l != ref.listing {
		out = append(out, "restore-onto-nonfresh-stale-listing")
	}
	return out
}

type ontoCase struct {
	sc   *scenario
	hist []int
	tgt  target
}

var ontoReps = map[string]ontoCase{}

func ontoLess(a, b ontoCase) bool {
	if x, y := len(a.hist)+len(a.tgt.cmds), len(b.hist)+len(b.tgt.cmds); x != y {
		return x < y
	}
	if len(a.hist) != len(b.hist) {
		return len(a.hist) < len(b.hist)
	}
	if x, y := strings.Join(a.tgt.names, ";"), strings.Join(b.tgt.names, ";"); x != y {
		return x < y
	}
	return fsmx.LessHist(a.hist, b.hist)
}

func reportOnto(class string, c ontoCase) {
	mu.Lock()
	if old, ok := ontoReps[class]; !ok || ontoLess(c, old) {
		ontoReps[class] = c
	}
	mu.Unlock()
}

func ontoFails(sc *scenario, hist []int, tcmds []fsmx.Cmd, class string) bool {
	f := fsmx.Replay(sc.alpha, sc.seed, hist)
	b, err := fsmx.SnapshotBytes(f)
	if err != nil {
		return false
	}
	ref := mkFreshRef(b)
	if ref == nil {
		return false
	}
	for _, cl := range restoreOnto(b, ref, tcmds) {
		if cl == class {
			return true
		}
	}
	return false
}

func main() {
	debug.SetGCPercent(400) // allocation-heavy (JSON in Apply/Restore/dump), small live heap: trade memory for GC time
	run := ev.Start("C22", "model_checking")
	quick := run.Quick()
	nodes := fsmx.NodeCmds([]string{"n1"}, map[string]string{"n1": "writer"})
	aAlpha := append(append(append(append([]fsmx.Cmd{}, nodes...), fsmx.FileCmds()...), fsmx.TokenCmds([]int64{1, 2})...), fsmx.MalformedCmds()...)
	bAlpha := fsmx.RBACCmds([]int64{2, 7, 9}, []int64{3, 8, 9}, []int64{4, 9}, []int64{5, 10}, []int64{1})
	cAlpha := append(fsmx.RBACCmds([]int64{1, 2}, []int64{2, 3}, []int64{3, 4}, []int64{4, 5}, []int64{1, 2}), fsmx.TokenCmds([]int64{1})[:1]...)
	scs := []*scenario{
		{name: "A:nodes+files+tokens from empty", alpha: aAlpha, depth: pick(quick, 4, 5)},
		{name: "B:RBAC from full hierarchy", seed: fsmx.HierarchySeed(), alpha: bAlpha, depth: pick(quick, 3, 4)},
		{name: "C:RBAC+token from empty", alpha: cAlpha, depth: pick(quick, 4, 5)},
	}
	samples := ev.NewSamples(6)
	totalStates, totalTrans := 0, int64(0)
	complete := true
	var perScenario []map[string]any
	for _, sc := range scs {
		sc := sc
		fsmx.Prepare(sc.alpha)
		fsmx.Prepare(sc.seed)
		sc.recs = make([][]rec, sc.depth+1)
		res := xstate.BFS(xstate.Config{NCmds: len(sc.alpha), MaxDepth: sc.depth, Stop: run.TimeUp,
			Expand: func(hist []int, wantKey string, leaf bool, visit func(int, string)) {
				viol, ctx := stateOracles(sc, hist)
				key := fmt.Sprintf("%d|%s", len(hist), ctx.key)
				if wantKey != "" && key != wantKey {
					ev.Nondeterminism(fmt.Sprintf("C22 replay of %v produced a different state", fsmx.Names(sc.alpha, hist)))
				}
				var inh map[string]bool
				if v, ok := inherit.Load(wantKey); ok {
					inh = v.(map[string]bool)
				}
				for cl := range viol {
					if !inh[cl] {
						report(sc, cl, "", hist)
					}
				}
				if ctx.b != nil {
					mu.Lock()
					sc.recs[len(hist)] = append(sc.recs[len(hist)], rec{hist: append([]int{}, hist...), b: ctx.b, fp: ctx.fp})
					mu.Unlock()
				}
				if len(hist) == sc.depth {
					samples.Add(fsmx.Names(sc.alpha, hist))
				}
				if leaf {
					return
				}
				for c := range sc.alpha {
					tv, sk, pit := transitionOracles(sc, hist, c, ctx)
					for cl := range tv {
						report(sc, cl, "", append(append([]int{}, hist...), c))
					}
					if pit != "" {
						reportPit(sc, pit, hist, []int{c})
					}
					sk = fmt.Sprintf("%d|%s", len(hist)+1, sk)
					if len(viol) > 0 {
						inherit.LoadOrStore(sk, viol)
					}
					visit(c, sk)
				}
			}})
		totalStates += res.States
		totalTrans += res.Transitions
		complete = complete && res.Complete
		for _, l := range sc.recs { // deterministic order for the product passes
			sort.Slice(l, func(i, j int) bool { return fsmx.LessHist(l[i].hist, l[j].hist) })
		}
		perScenario = append(perScenario, map[string]any{"scenario": sc.name, "alphabet": len(sc.alpha), "seed_len": len(sc.seed),
			"depth": sc.depth, "states": res.States, "transitions": res.Transitions, "per_depth_frontier": res.PerDepth, "complete": res.Complete})
		fmt.Printf("scenario %q: alphabet=%d depth=%d states=%d transitions=%d complete=%v\n", sc.name, len(sc.alpha), sc.depth, res.States, res.Transitions, res.Complete)
	}

	// ---- pass: snapshot timing with continuations of length 2 (thorough only; length 1 rode along with the BFS)
	pitBound := "continuation length 1 from every state at depth < bound (all BFS transitions)"
	if !quick {
		pitBound = "continuation length 1 from every state at depth < bound, length 2 from every state at depth <= bound-2"
		for _, sc := range scs {
			var ss []rec
			for d := 0; d <= sc.depth-2; d++ {
				ss = append(ss, sc.recs[d]...)
			}
			n := len(sc.alpha)
			ok := fsmx.ParallelFor(len(ss)*n, run.TimeUp, func(i int) {
				s, c1 := ss[i/n], i%n
				ctx := &stateCtx{b: s.b, fp: s.fp}
				for c2 := 0; c2 < n; c2++ {
					if cl := pointInTime(sc, s.hist, []int{c1, c2}, ctx); cl != "" {
						reportPit(sc, cl, s.hist, []int{c1, c2})
					}
				}
			})
			complete = complete && ok
			fmt.Printf("scenario %q: snapshot-timing length-2 pass over %d states x %d^2 continuations complete=%v\n", sc.name, len(ss), n, ok)
		}
	}

	// ---- pass: restore onto a non-fresh FSM
	// target depth allowed for a snapshot state at depth k: the product is triangular so that the
	// many deepest states meet the fewer shallow targets.
	// quick: depth-bound states -> the scenario root only, every other state -> all targets at depth <= 2;
	// thorough: state at depth k -> all targets at depth <= min(3, bound-k).
	tdepth := func(sc *scenario, k int) int {
		lim := pick(quick, 2, 3)
		if quick {
			if k == sc.depth {
				return 0
			}
			return lim
		}
		if rem := sc.depth - k; rem < lim {
			return rem
		}
		return lim
	}
	rich := richTargets()
	var ontoBounds []map[string]any
	for _, sc := range scs {
		sc := sc
		var tg [][]target // targets by depth
		for d := 0; d <= sc.depth && d <= pick(quick, 2, 3); d++ {
			var l []target
			for _, r := range sc.recs[d] {
				t := mkTarget(sc, r.hist)
				t.fp = r.fp
				l = append(l, t)
			}
			tg = append(tg, l)
		}
		var ss []rec
		for d := 0; d <= sc.depth; d++ {
			ss = append(ss, sc.recs[d]...)
		}
		var pairs int64
		perDepth := map[int]int64{}
		ok := fsmx.ParallelFor(len(ss), run.TimeUp, func(i int) {
			s := ss[i]
			ref := mkFreshRef(s.b)
			if ref == nil {
				return
			}
			td := tdepth(sc, len(s.hist))
			var n, differs int64
			try := func(t target) {
				n++
				if t.fp != s.fp {
					differs++
				}
				for _, cl := range restoreOnto(s.b, ref, t.cmds) {
					reportOnto(cl, ontoCase{sc, s.hist, t})
				}
			}
			for d := 0; d <= td && d < len(tg); d++ {
				for _, t := range tg[d] {
					try(t)
				}
			}
			for k := td + 1; k < len(s.hist); k++ { // the lagging follower: deeper proper prefixes of s's own history
				t := mkTarget(sc, s.hist[:k])
				t.fp = fsmx.Fingerprint(fsmx.Build(t.cmds))
				try(t)
			}
			for _, t := range rich {
				try(t)
			}
			mu.Lock()
			pairs += n
			checks["onto_target_held_another_state"] += differs
			perDepth[len(s.hist)] += n
			mu.Unlock()
		})
		complete = complete && ok
		count("onto_evaluations", pairs)
		ontoBounds = append(ontoBounds, map[string]any{"scenario": sc.name, "snapshot_states": len(ss), "pairs": pairs, "pairs_by_snapshot_depth": perDepth, "complete": ok})
		fmt.Printf("scenario %q: restore-onto-nonfresh pass: %d snapshot states, %d (snapshot,target) pairs complete=%v\n", sc.name, len(ss), pairs, ok)
	}

	// minimise one representative per pre-class, then classify
	for p, h := range reps {
		sc := repsScen[p]
		min := ev.Minimize(h, failsWith(sc, p.oracle))
		names := fsmx.Names(sc.alpha, min)
		seedNote := ""
		if len(sc.seed) > 0 {
			seedNote = "seed=hierarchy;"
		}
		run.Violate(p.oracle+"|"+seedNote+strings.Join(names, ";"), "oracle "+p.oracle+" fails after this command history (log index = position)",
			map[string]any{"scenario": sc.name, "seed": cmdNames(sc.seed), "history": names, "found_at": fsmx.Names(sc.alpha, h)})
	}
	for p, c := range pitReps {
		sc := c.sc
		cont := c.cont
		fails := func(h, ct []int) bool { return pointInTime(sc, h, ct, nil) == p.oracle }
		if len(cont) == 2 {
			if fails(c.hist, cont[1:]) {
				cont = cont[1:]
			} else if fails(c.hist, cont[:1]) {
				cont = cont[:1]
			}
		}
		min := ev.Minimize(c.hist, func(h []int) bool { return fails(h, cont) })
		seedNote := ""
		if len(sc.seed) > 0 {
			seedNote = "seed=hierarchy;"
		}
		parts := append(append(append(fsmx.Names(sc.alpha, min), "<Snapshot()>"), fsmx.Names(sc.alpha, cont)...), "<Persist()>")
		run.Violate(p.oracle+"|"+seedNote+strings.Join(parts, ";"),
			"a snapshot handle taken after the commands before <Snapshot()> and persisted only after the following commands were applied to the same FSM does not restore to the state it was taken in (differing dump keys in the signature)",
			map[string]any{"scenario": sc.name, "seed": cmdNames(sc.seed), "history_before_snapshot": fsmx.Names(sc.alpha, min), "applied_between_snapshot_and_persist": fsmx.Names(sc.alpha, cont),
				"found_at": map[string]any{"history": fsmx.Names(sc.alpha, c.hist), "continuation": fsmx.Names(sc.alpha, c.cont)}})
	}
	for class, c := range ontoReps {
		sc := c.sc
		tc := c.tgt.cmds
		minH := ev.Minimize(c.hist, func(h []int) bool { return ontoFails(sc, h, tc, class) })
		idx := make([]int, len(tc))
		for i := range idx {
			idx[i] = i
		}
		sub := func(ix []int) []fsmx.Cmd {
			var o []fsmx.Cmd
			for _, i := range ix {
				o = append(o, tc[i])
			}
			return o
		}
		minT := sub(ev.Minimize(idx, func(ix []int) bool { return ontoFails(sc, minH, sub(ix), class) }))
		seedNote := ""
		if len(sc.seed) > 0 {
			seedNote = "seed=hierarchy;"
		}
		sNames := fsmx.Names(sc.alpha, minH)
		run.Violate(class+"|snapshot-of="+snapName(seedNote, sNames)+"|onto="+ontoName(cmdNames(minT)),
			"the snapshot of the first history, restored onto an FSM that had already applied the second history, is not the state the snapshot was taken from (Restore into a fresh FSM is)",
			map[string]any{"scenario": sc.name, "seed": cmdNames(sc.seed), "snapshot_of": sNames, "restored_onto": cmdNames(minT),
				"found_at": map[string]any{"snapshot_of": fsmx.Names(sc.alpha, c.hist), "restored_onto": c.tgt.names}})
	}
	run.Coverage["states"] = totalStates
	run.Coverage["transitions"] = totalTrans
	run.Coverage["traces_validated_against_impl"] = totalTrans
	run.Coverage["samples"] = samples.List()
	run.Coverage["exhaustive"] = complete
	run.Coverage["scenarios"] = perScenario
	run.Coverage["oracle_evaluations"] = checks
	run.Coverage["snapshot_timing_bound"] = pitBound
	run.Coverage["restore_onto_nonfresh"] = ontoBounds
	run.Coverage["restore_onto_nonfresh_bound"] = "snapshot of every recorded reachable state (depth k) restored onto every reachable state of the same scenario at depth <= " + pick2(quick, "2 (k < bound) / the scenario root only (k = bound)", "min(3, bound-k)") + ", onto every deeper proper prefix of its own history (lagging follower) and onto " + fmt.Sprint(len(rich)) + " rich targets (nodes+primary+compactor+files+tokens, and the same plus the RBAC hierarchy); every target served a manifest listing before the restore"
	run.Coverage["explanation"] = "every transition is a call of the real ClusterFSM.Apply on a fresh FSM after replaying the history; states de-duplicated by canonical dump of primaries+indexes (+ next log index)"
	run.Assume("universe: 1 node, 2 file paths (+1 invalid), 2 databases, tokens a/b with shared prefix, 2-3 ids per RBAC entity type; depth bound per scenario as reported")
	run.Assume("hashicorp/raft itself (log replication, snapshot scheduling) is not explored; the FSM is driven directly with committed logs; its Snapshot()/Persist() split is modelled by persisting a handle after further Apply calls (sequentially: Persist racing an in-flight Apply at instruction level is a data-race question, not explored here)")
	run.Assume("fsmSnapshot.Persist is a deterministic function of the handle (json.Marshal): a late-persisted stream byte-identical to the immediate one is not restored again")
	run.Finish()
}

// ontoName renders the (minimised) target history; an empty one is a fresh FSM that only served a
// manifest listing before the restore.
func ontoName(names []string) string {
	if len(names) == 0 {
		return "<fresh FSM>"
	}
	return strings.Join(names, ";")
}

func snapName(seedNote string, names []string) string {
	if seedNote == "" && len(names) == 0 {
		return "<empty state>"
	}
	return seedNote + strings.Join(names, ";")
}

func pick2(q bool, a, b string) string {
	if q {
		return a
	}
	return b
}

func pick(q bool, a, b int) int {
	if q {
		return a
	}
	return b
}

func cmdNames(cs []fsmx.Cmd) []string {
	var o []string
	for _, c := range cs {
		o = append(o, c.Name)
	}
	return o
}
