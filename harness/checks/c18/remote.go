// C18, remote-storage histories.
//
// The pruner has a second existence filter for s3:// and azure:// paths (filterExistingRemotePaths): instead
// of globbing the file system it lists the parent "directories" of the generated partition paths through
// the backend's DirectoryLister interface, keeps listings (and day-level file checks) in the glob cache for
// 30 s and whole results per (path, SQL text) in the partition cache for 60 s. None of this is reachable on a
// LocalBackend, and all of it is STATE that outlives a query: what one query saw (or failed to see) decides
// what later queries read.
//
// Explored space: every history
//
//	[e] Q [e] Q [e] Q          (e = nothing or one event, Q = one of a few SQL texts)
//
// on ONE long-lived handler (api.NewQueryHandler over a fake remote backend that serves List /
// ListDirectories from a set of object keys), for every initial layout of two adjacent days. Events:
// listing of one target fails once / fails until cleared / faults cleared; an hour directory appears /
// disappears; a day is compacted (day-level file appears, hour directories vanish); 31 s / 61 s / 92 s pass
// (the cache entries are aged through an accessor: past the glob TTL, past the partition TTL, past both in
// sequence); the caches are invalidated (the post-compaction hook). quick: s3://, 4 layouts, 3 SQL texts, 15
// events (faults on the month and the later day only), plus azure:// for the two-query prefixes. Thorough: the
// full alphabet (21 events, faults on both days) on all 9 layouts of {H,C,M}^2 with 4 SQL texts, azure:// for
// the three-query histories, layouts with an empty day + a BETWEEN text + a window reaching into a third day,
// and histories of two queries with up to two events in each gap. The shapes are listed with their counts
// in the evidence (remote_histories.shapes).
//
// Oracle (per query of the history, judged on the path list the handler's real rewrite step produces):
// every partition (hour directory or day-level file) that holds an object in the fake store, intersects the
// query's time window and has been there longer than the caches may legitimately remember its absence
// (glob TTL + partition TTL; immediately after an invalidation) must be in the list - or the list must be
// the unpruned glob. Over-inclusion (vanished or never-existing partitions) is allowed: pruning may read too
// much, never too little.
package main

import (
	"context"
	"errors"
	"fmt"
	"sort"
	"strings"
	"sync"
	"sync/atomic"
	"time"

	"github.com/basekick-labs/arc/internal/api"
	"github.com/basekick-labs/arc/internal/database"
	"github.com/basekick-labs/arc/internal/pruning"
	"github.com/basekick-labs/arc/internal/storage"
	"github.com/basekick-labs/arc/zzverif/engine/ev"
	"github.com/rs/zerolog"
)

const (
	rDB   = "rdb"
	rMeas = "rm"
)

var (
	rDays  = []string{"2026/01/14", "2026/01/15"} // D0, D1: the two days events act on
	rMonth = "2026/01"
	// hour directories of day state H / the left-over hour directory of state M / the hour that can appear /
	// the hour that can disappear, per day
	rHoursH  = [][]string{{"21", "22"}, {"01", "02"}}
	rHourM   = []string{"22", "01"}
	rHourAdd = []string{"23", "00"}
	rHourDel = []string{"22", "01"}
)

// ---- fake remote backend --------------------------------------------------------------------------

// fakeRemote serves the two listing calls the pruner uses from a set of object keys (S3 semantics: a
// "directory" exists iff some key has it as a prefix). Everything else of storage.Backend is never called by
// the code under test (the embedded nil interface would panic, which would surface as a harness failure).
type fakeRemote struct {
	storage.Backend
	typ        string
	objects    map[string]bool
	failOnce   map[string]bool // "D:<prefix>" ListDirectories, "F:<prefix>" List
	failAlways map[string]bool
	dirCalls   int
	fileCalls  int
	fired      int
}

func (b *fakeRemote) Type() string       { return b.typ }
func (b *fakeRemote) ConfigJSON() string { return "{}" }
func (b *fakeRemote) Close() error       { return nil }

func (b *fakeRemote) fault(key string) error {
	if b.failOnce[key] {
		delete(b.failOnce, key)
		b.fired++
		return errors.New("RequestTimeout: injected transient listing failure")
	}
	if b.failAlways[key] {
		b.fired++
		return errors.New("ServiceUnavailable: injected listing failure")
	}
	return nil
}

func (b *fakeRemote) List(ctx context.Context, prefix string) ([]string, error) {
	b.fileCalls++
	if err := b.fault("F:" + prefix); err != nil {
		return nil, err
	}
	var out []string
	for k := range b.objects {
		if strings.HasPrefix(k, prefix) {
			out = append(out, k)
		}
	}
	sort.Strings(out)
	return out, nil
}

func (b *fakeRemote) ListDirectories(ctx context.Context, prefix string) ([]string, error) {
	b.dirCalls++
	if prefix != "" && !strings.HasSuffix(prefix, "/") {
		prefix += "/"
	}
	if err := b.fault("D:" + prefix); err != nil {
		return nil, err
	}
	set := map[string]bool{}
	for k := range b.objects {
		if rest, ok := strings.CutPrefix(k, prefix); ok {
			if i := strings.Index(rest, "/"); i > 0 {
				set[rest[:i]] = true
			}
		}
	}
	out := make([]string, 0, len(set))
	for d := range set {
		out = append(out, d) // bare names, as S3Backend.ListDirectories returns them
	}
	sort.Strings(out)
	return out, nil
}

func rHourKey(day int, hour string) string {
	return rDB + "/" + rMeas + "/" + rDays[day] + "/" + hour + "/" + rMeas + "_" + hour + "0000_1.parquet"
}

func rDayFileKey(day int) string {
	return rDB + "/" + rMeas + "/" + rDays[day] + "/" + rMeas + "_" + strings.ReplaceAll(rDays[day], "/", "") + "_daily.parquet"
}

// rInitialObjects: day state E = no data, H = hour directories, C = day-level compacted file only, M =
// day-level file plus one hour directory that has not been compacted yet.
func rInitialObjects(layout string) map[string]bool {
	o := map[string]bool{}
	for d, st := range layout {
		switch st {
		case 'H':
			for _, h := range rHoursH[d] {
				o[rHourKey(d, h)] = true
			}
		case 'C':
			o[rDayFileKey(d)] = true
		case 'M':
			o[rDayFileKey(d)] = true
			o[rHourKey(d, rHourM[d])] = true
		}
	}
	return o
}

// ---- queries --------------------------------------------------------------------------------------

type rquery struct {
	Name string
	SQL  string
	S, E time.Time // rows with S <= time < E qualify
}

func rq(name, s, e string) rquery {
	return rquery{name, fmt.Sprintf("SELECT * FROM %s WHERE time >= '%s' AND time < '%s'", rMeas, s, e), utc(s), utc(e)}
}

// canonical order (the minimiser replaces queries by earlier ones). Half-open windows only: an inclusive end
// on a partition boundary is finding F5 of the local part.
var rQueriesAll = []rquery{
	rq("D0.22-D1.02", "2026-01-14 22:00:00", "2026-01-15 02:00:00"),    // both days
	rq("D0.21-D1.03", "2026-01-14 21:00:00", "2026-01-15 03:00:00"),    // both days, superset of the first
	rq("D1.00-D1.02:30", "2026-01-15 00:00:00", "2026-01-15 02:30:00"), // later day only, ends inside an hour
	// thorough
	rq("D0.21:30-D0.23:30", "2026-01-14 21:30:00", "2026-01-14 23:30:00"), // earlier day only, bounds inside hours
	{"D0.22-D1.02/between", "SELECT * FROM " + rMeas + " WHERE time BETWEEN '2026-01-14 22:00:00' AND '2026-01-15 01:59:59'",
		utc("2026-01-14 22:00:00"), utc("2026-01-15 02:00:00")}, // the first window under another SQL text
	rq("D0.23-D2.01", "2026-01-14 23:00:00", "2026-01-16 01:00:00"), // reaches into a third, empty day
}

// ---- steps ----------------------------------------------------------------------------------------

// fault targets: the three ListDirectories calls (parents of the day directories and of the hour
// directories) and the two day-level List calls
var rTargets = []struct {
	Key   string // fake backend fault key
	Class string // signature rendering
	Day   int    // -1 = not day specific
}{
	{"D:" + rDB + "/" + rMeas + "/" + rMonth + "/", "list-dirs(month)", -1},
	{"D:" + rDB + "/" + rMeas + "/" + rDays[1] + "/", "list-dirs(day)", 1},
	{"F:" + rDB + "/" + rMeas + "/" + rDays[1] + "/", "list-files(day)", 1},
	{"D:" + rDB + "/" + rMeas + "/" + rDays[0] + "/", "list-dirs(day)", 0},
	{"F:" + rDB + "/" + rMeas + "/" + rDays[0] + "/", "list-files(day)", 0},
}

type rstep struct {
	K byte // q query | f fail once | p fail persistently | c clear faults | a hour appears | x hour disappears | k day compacted | t seconds pass | i caches invalidated
	A int
}

func (s rstep) String() string {
	switch s.K {
	case 'q':
		return "query " + rQueriesAll[s.A].Name
	case 'f':
		return rTargets[s.A].Key + " fails once"
	case 'p':
		return rTargets[s.A].Key + " fails until cleared"
	case 'c':
		return "faults cleared"
	case 'a':
		return "hour directory " + rDays[s.A] + "/" + rHourAdd[s.A] + " appears"
	case 'x':
		return "hour directory " + rDays[s.A] + "/" + rHourDel[s.A] + " disappears"
	case 'k':
		return "day " + rDays[s.A] + " compacted (day-level file appears, its hour directories vanish)"
	case 't':
		return fmt.Sprintf("%d s pass", s.A)
	case 'i':
		return "caches invalidated (QueryHandler.InvalidateCaches)"
	}
	return "?"
}

func rKey(scheme, layout string, steps []rstep) string {
	var b strings.Builder
	b.WriteString(scheme)
	b.WriteByte('|')
	b.WriteString(layout)
	for _, s := range steps {
		fmt.Fprintf(&b, "|%c%d", s.K, s.A)
	}
	return b.String()
}

var rAge [3]int // seconds: past the glob TTL, past the partition TTL, past both in sequence
var rStaleBound int

func rInitTTLs() {
	g, p := pruning.VerifCacheTTLs()
	if g <= 0 || p <= 0 || g%time.Second != 0 || p%time.Second != 0 {
		ev.Unbound(fmt.Sprintf("unexpected cache TTLs %v / %v", g, p))
	}
	gs, ps := int(g/time.Second), int(p/time.Second)
	rAge = [3]int{gs + 1, ps + 1, gs + ps + 2}
	// a listing that does not show a partition is at most glob-TTL old when a result computed from it enters
	// the partition cache, where it lives for the partition TTL: absence may be remembered for the sum
	rStaleBound = gs + ps
}

// rEvents: canonical order. quick leaves the earlier day's listing faults and two store events to thorough.
func rEvents(full bool) []rstep {
	nt := 3
	if full {
		nt = len(rTargets)
	}
	var es []rstep
	for t := 0; t < nt; t++ {
		es = append(es, rstep{'f', t})
	}
	for t := 0; t < nt; t++ {
		es = append(es, rstep{'p', t})
	}
	es = append(es, rstep{'c', 0})
	es = append(es, rstep{'a', 1}, rstep{'x', 1}, rstep{'k', 1}, rstep{'a', 0})
	if full {
		es = append(es, rstep{'x', 0}, rstep{'k', 0})
	}
	es = append(es, rstep{'t', rAge[0]}, rstep{'t', rAge[1]}, rstep{'t', rAge[2]}, rstep{'i', 0})
	return es
}

// ---- execution ------------------------------------------------------------------------------------

type rqres struct {
	SQL          string
	Pruned       bool
	Paths        []string
	Required     []string // partition ids "h:2026/01/14/22" / "d:2026/01/14"
	Missing      []string
	FreshAllowed []string // exist and intersect the window, but younger than the staleness bound
	FreshMissing int
}

func rBase(scheme string) string {
	if scheme == "azure" {
		return "azure://cont"
	}
	return "s3://bkt"
}

// rPartitions: the partitions holding an object, straight from the key set (independent of the listing code).
func rPartitions(objects map[string]bool) map[string]bool {
	pfx := rDB + "/" + rMeas + "/"
	out := map[string]bool{}
	for k := range objects {
		parts := strings.Split(strings.TrimPrefix(k, pfx), "/")
		switch len(parts) {
		case 5:
			out["h:"+strings.Join(parts[:4], "/")] = true
		case 4:
			out["d:"+strings.Join(parts[:3], "/")] = true
		}
	}
	return out
}

func rPartSpan(id string) (time.Time, time.Time) {
	if id[0] == 'h' {
		t, err := time.Parse("2006/01/02/15", id[2:])
		if err != nil {
			panic(err)
		}
		return t, t.Add(time.Hour)
	}
	t, err := time.Parse("2006/01/02", id[2:])
	if err != nil {
		panic(err)
	}
	return t, t.Add(24 * time.Hour)
}

func rPartPath(scheme, id string) string {
	return rBase(scheme) + "/" + rDB + "/" + rMeas + "/" + id[2:] + "/*.parquet"
}

// rsim: one long-lived handler over one fake store, plus the bookkeeping of the oracle (virtual seconds,
// when each partition appeared).
type rsim struct {
	scheme   string
	original string
	be       *fakeRemote
	h        *api.QueryHandler
	pr       *pruning.PartitionPruner
	vt       int
	appeared map[string]int // partition id -> virtual second it (re)appeared; absent = there from the start / before an invalidation
}

func newRsim(db *database.DuckDB, scheme, layout string) *rsim {
	be := &fakeRemote{typ: scheme, objects: rInitialObjects(layout), failOnce: map[string]bool{}, failAlways: map[string]bool{}}
	h := api.NewQueryHandler(db, be, zerolog.Nop(), 0, 0) // wires the backend into its pruner as in production
	return &rsim{scheme: scheme, original: rBase(scheme) + "/" + rDB + "/" + rMeas + "/**/*.parquet", be: be, h: h, pr: h.VerifPruner(), appeared: map[string]int{}}
}

type rsnap struct {
	objects, failOnce, failAlways map[string]bool
	vt                            int
	appeared                      map[string]int
	caches                        *pruning.VerifCacheSnapshot
}

func cpSet(m map[string]bool) map[string]bool {
	o := make(map[string]bool, len(m))
	for k, v := range m {
		o[k] = v
	}
	return o
}

func cpInts(m map[string]int) map[string]int {
	o := make(map[string]int, len(m))
	for k, v := range m {
		o[k] = v
	}
	return o
}

func (s *rsim) snapshot() *rsnap {
	return &rsnap{cpSet(s.be.objects), cpSet(s.be.failOnce), cpSet(s.be.failAlways), s.vt, cpInts(s.appeared), s.pr.VerifSnapshotCaches()}
}

func (s *rsim) restore(n *rsnap) {
	s.be.objects, s.be.failOnce, s.be.failAlways = cpSet(n.objects), cpSet(n.failOnce), cpSet(n.failAlways)
	s.vt, s.appeared = n.vt, cpInts(n.appeared)
	s.pr.VerifRestoreCaches(n.caches)
}

func (s *rsim) storeChange(f func()) {
	before := rPartitions(s.be.objects)
	f()
	after := rPartitions(s.be.objects)
	for id := range after {
		if !before[id] {
			s.appeared[id] = s.vt
		}
	}
	for id := range before {
		if !after[id] {
			delete(s.appeared, id)
		}
	}
}

// apply executes one step; for a query it returns the judged result.
func (s *rsim) apply(st rstep) *rqres {
	be := s.be
	switch st.K {
	case 'f':
		be.failOnce[rTargets[st.A].Key] = true
	case 'p':
		be.failAlways[rTargets[st.A].Key] = true
	case 'c':
		be.failOnce, be.failAlways = map[string]bool{}, map[string]bool{}
	case 'a':
		s.storeChange(func() { be.objects[rHourKey(st.A, rHourAdd[st.A])] = true })
	case 'x':
		s.storeChange(func() { delete(be.objects, rHourKey(st.A, rHourDel[st.A])) })
	case 'k':
		s.storeChange(func() {
			dayPfx := rDB + "/" + rMeas + "/" + rDays[st.A] + "/"
			n := 0
			for k := range be.objects {
				if strings.HasPrefix(k, dayPfx) && k != rDayFileKey(st.A) {
					delete(be.objects, k)
					n++
				}
			}
			if n > 0 {
				be.objects[rDayFileKey(st.A)] = true
			}
		})
	case 't':
		s.vt += st.A
		s.pr.VerifAgeCaches(time.Duration(st.A) * time.Second)
	case 'i':
		s.h.InvalidateCaches()
		s.appeared = map[string]int{}
	case 'q':
		q := rQueriesAll[st.A]
		expr := s.h.VerifReadParquetExpr(context.Background(), s.original, q.SQL)
		qr := &rqres{SQL: q.SQL}
		have := map[string]bool{}
		for _, m := range pathRe.FindAllStringSubmatch(expr, -1) {
			qr.Paths = append(qr.Paths, m[1])
			have[m[1]] = true
		}
		if len(qr.Paths) == 0 {
			cleanup()
			ev.Unbound("remote histories: no path in the handler's read_parquet expression: " + expr)
		}
		sort.Strings(qr.Paths) // day-level paths come out of a map iteration in GeneratePartitionPaths
		qr.Pruned = !have[s.original]
		var ids []string
		for id := range rPartitions(be.objects) {
			ids = append(ids, id)
		}
		sort.Strings(ids)
		for _, id := range ids {
			ps, pe := rPartSpan(id)
			if !(ps.Before(q.E) && pe.After(q.S)) {
				continue
			}
			present := !qr.Pruned || have[rPartPath(s.scheme, id)]
			if at, fresh := s.appeared[id]; fresh && s.vt-at <= rStaleBound {
				qr.FreshAllowed = append(qr.FreshAllowed, id)
				if !present {
					qr.FreshMissing++
				}
				continue
			}
			qr.Required = append(qr.Required, id)
			if !present {
				qr.Missing = append(qr.Missing, id)
			}
		}
		return qr
	}
	return nil
}

// rRun: the whole history, linearly, on a fresh handler.
func rRun(db *database.DuckDB, scheme, layout string, steps []rstep) []*rqres {
	s := newRsim(db, scheme, layout)
	var out []*rqres
	for _, st := range steps {
		if qr := s.apply(st); qr != nil {
			out = append(out, qr)
		}
	}
	return out
}

func rKind(id string) string {
	if id[0] == 'h' {
		return "hour-dir"
	}
	return "day-file"
}

func rMissingOfKind(q *rqres, kind string) string {
	for _, id := range q.Missing {
		if rKind(id) == kind {
			return id
		}
	}
	return ""
}

// ---- minimisation ---------------------------------------------------------------------------------

type rcase struct {
	Scheme, Layout string
	Steps          []rstep // last step is the query that loses data
}

type rminimiser struct {
	db      *database.DuckDB
	layouts []string // canonical order
	memo    *sync.Map
	replays *int64
}

// fails: the LAST step (a query) misses a required partition of the given kind.
func (m *rminimiser) fails(c rcase, kind string) bool {
	k := rKey(c.Scheme, c.Layout, c.Steps) + "#" + kind
	if v, ok := m.memo.Load(k); ok {
		return v.(bool)
	}
	atomic.AddInt64(m.replays, 1)
	r := rRun(m.db, c.Scheme, c.Layout, c.Steps)
	f := rMissingOfKind(r[len(r)-1], kind) != ""
	m.memo.Store(k, f)
	return f
}

func rWith(c rcase, steps []rstep) rcase { return rcase{c.Scheme, c.Layout, steps} }

// shortest: the first failing sub-history (a subset of the steps before the final query, order kept, plus
// the final query) by increasing size, index sets in lexicographic order. Exhaustive over the <= 2^n subsets
// (n <= 7), so the result has globally minimal length; replays are shared between raw failures by the memo.
func (m *rminimiser) shortest(c rcase, kind string) rcase {
	n := len(c.Steps) - 1
	final := c.Steps[n]
	for size := 0; size < n; size++ {
		idx := make([]int, size)
		for i := range idx {
			idx[i] = i
		}
		for {
			steps := make([]rstep, 0, size+1)
			for _, i := range idx {
				steps = append(steps, c.Steps[i])
			}
			steps = append(steps, final)
			if cand := rWith(c, steps); m.fails(cand, kind) {
				return cand
			}
			// next combination
			i := size - 1
			for i >= 0 && idx[i] == n-size+i {
				i--
			}
			if i < 0 {
				break
			}
			idx[i]++
			for j := i + 1; j < size; j++ {
				idx[j] = idx[j-1] + 1
			}
		}
	}
	return c
}

// canonSteps: persistent faults become one-shot faults, queries / fault targets / waits their first
// canonical alternative, while the final query keeps losing a partition of the same kind.
func (m *rminimiser) canonSteps(c rcase, kind string) rcase {
	for changed := true; changed; {
		changed = false
		for i, s := range c.Steps {
			var alts []rstep
			switch s.K {
			case 'p':
				alts = append(alts, rstep{'f', s.A})
			case 'q':
				for a := 0; a < s.A; a++ {
					alts = append(alts, rstep{'q', a})
				}
			case 't':
				for _, a := range rAge {
					if a < s.A {
						alts = append(alts, rstep{'t', a})
					}
				}
			}
			if s.K == 'f' || s.K == 'p' {
				for a := 0; a < s.A; a++ {
					alts = append(alts, rstep{'f', a})
				}
			}
			for _, alt := range alts {
				steps := append([]rstep{}, c.Steps...)
				steps[i] = alt
				if m.fails(rWith(c, steps), kind) {
					c.Steps, changed = steps, true
					break
				}
			}
		}
	}
	return c
}

// canonical: the (already shortest-on-its-layout) history is shortened on every initial layout and scheme
// on which it still fails; the shortest result wins, ties go to the first layout of the canonical order and
// to s3. (Minimising on the original layout only would keep events whose sole job is to turn that layout into
// a simpler one.) Then the steps are canonicalised.
func (m *rminimiser) canonical(c rcase, kind string) rcase {
	best := c
	schemes := []string{"s3"}
	if c.Scheme != "s3" {
		schemes = append(schemes, c.Scheme)
	}
	for _, scheme := range schemes {
		for _, l := range m.layouts {
			cand := rcase{scheme, l, c.Steps}
			if !m.fails(cand, kind) {
				continue
			}
			cand = m.shortest(cand, kind)
			if len(cand.Steps) < len(best.Steps) {
				best = cand
			}
		}
	}
	for _, scheme := range schemes {
		done := false
		for _, l := range m.layouts {
			if scheme == best.Scheme && l == best.Layout {
				done = true
				break
			}
			if m.fails(rcase{scheme, l, best.Steps}, kind) {
				best.Scheme, best.Layout, done = scheme, l, true
				break
			}
		}
		if done {
			break
		}
	}
	return m.shortest(m.canonSteps(best, kind), kind)
}

// rSignature: class of a minimal history. Days, hours and the concrete windows are abstracted: a fault
// target is named by its call and its relation to the lost partition's day, an earlier query only by
// whether its SQL text is the final query's.
func rSignature(c rcase, kind, lostID string) string {
	lostDay := -1
	for d := range rDays {
		if strings.HasPrefix(lostID[2:], rDays[d]) {
			lostDay = d
		}
	}
	final := c.Steps[len(c.Steps)-1]
	var parts []string
	for i, s := range c.Steps {
		switch s.K {
		case 'q':
			switch {
			case i == len(c.Steps)-1:
				parts = append(parts, "query")
			case s.A == final.A:
				parts = append(parts, "query(same text)")
			default:
				parts = append(parts, "query(other text)")
			}
		case 'f', 'p':
			t := rTargets[s.A]
			cl := t.Class
			if t.Day >= 0 && t.Day != lostDay {
				cl = strings.Replace(cl, "(day)", "(other day)", 1)
			}
			if s.K == 'f' {
				parts = append(parts, cl+" fails once")
			} else {
				parts = append(parts, cl+" fails persistently")
			}
		case 'c':
			parts = append(parts, "faults cleared")
		case 'a':
			parts = append(parts, "hour-dir appears")
		case 'x':
			parts = append(parts, "hour-dir disappears")
		case 'k':
			parts = append(parts, "day compacted")
		case 't':
			parts = append(parts, fmt.Sprintf("+%ds", s.A))
		case 'i':
			parts = append(parts, "caches invalidated")
		}
	}
	return "remote-data-dropped|lost=" + kind + "|history=" + strings.Join(parts, " > ")
}

// ---- enumeration ----------------------------------------------------------------------------------

type rshape struct {
	Name    string
	Schemes []string
	Layouts []string
	QIdx    []int // SQL texts used (indices into rQueriesAll)
	Queries int   // queries per history
	GapMax  int   // events per gap (0..GapMax, as sets in canonical order)
	Events  []rstep
}

// gapChoices: every set of at most max events, rendered in canonical order (events of one gap are applied
// back to back, so only their set matters except for pairs acting on the same object, where the canonical
// order is the one explored).
func gapChoices(events []rstep, max int) [][]rstep {
	out := [][]rstep{nil}
	for i := range events {
		out = append(out, []rstep{events[i]})
	}
	if max >= 2 {
		for i := range events {
			for j := i + 1; j < len(events); j++ {
				out = append(out, []rstep{events[i], events[j]})
			}
		}
	}
	return out
}

func rAllLayouts(states string) []string {
	var out []string
	for _, a := range states {
		for _, b := range states {
			if a == 'E' && b == 'E' {
				continue
			}
			out = append(out, string(a)+string(b))
		}
	}
	// canonical: hour directories only first, then fewer special days
	w := func(l string) int {
		return strings.Count(l, "E")*1000 + strings.Count(l, "M")*100 + strings.Count(l, "C")*10
	}
	sort.SliceStable(out, func(i, j int) bool {
		if w(out[i]) != w(out[j]) {
			return w(out[i]) < w(out[j])
		}
		return out[i] < out[j]
	})
	return out
}

func stepStrings(steps []rstep) []string {
	var hs []string
	for _, s := range steps {
		hs = append(hs, s.String())
	}
	return hs
}

var remoteSamples []any // written-out remote histories for coverage["samples"]

func remoteHistories(run *ev.Run, full bool, dbs []*database.DuckDB) bool {
	t0 := time.Now()
	rInitTTLs()
	quickLayouts := []string{"HH", "HC", "CH", "MM"}
	var shapes []rshape
	if !full {
		shapes = []rshape{
			{"3 queries, <=1 event per gap", []string{"s3"}, quickLayouts, []int{0, 1, 2}, 3, 1, rEvents(false)},
			{"2 queries, <=1 event per gap, azure", []string{"azure"}, quickLayouts, []int{0, 1, 2}, 2, 1, rEvents(false)},
		}
	} else {
		shapes = []rshape{
			{"3 queries, <=1 event per gap, full alphabet, all layouts", []string{"s3"}, rAllLayouts("HCM"), []int{0, 1, 2, 3}, 3, 1, rEvents(true)},
			{"3 queries, <=1 event per gap, full alphabet, azure", []string{"azure"}, quickLayouts, []int{0, 1, 2}, 3, 1, rEvents(true)},
			{"3 queries, <=1 event per gap, layouts with an empty day, BETWEEN text and third-day window", []string{"s3"}, []string{"HH", "MM", "HE", "EH", "ME", "EM", "CE", "EC"}, []int{0, 4, 5, 2}, 3, 1, rEvents(false)},
			{"2 queries, <=2 events per gap, full alphabet", []string{"s3"}, quickLayouts, []int{0, 1, 2}, 2, 2, rEvents(true)},
		}
	}
	canonLayouts := rAllLayouts("HCME")

	// a task = the subtree below (shape, scheme, layout, first gap, first query): the prefix is executed once,
	// its state (fake store, fault plan, oracle bookkeeping, cache entries) is snapshotted, and every
	// continuation [gap] query is branched off a restored copy
	type task struct {
		shape          int
		scheme, layout string
		gap0           []rstep
		q0             int
	}
	var tasks []task
	var total int64
	gcs := make([][][]rstep, len(shapes))
	for si, sh := range shapes {
		gcs[si] = gapChoices(sh.Events, sh.GapMax)
		per := int64(1)
		for i := 1; i < sh.Queries; i++ {
			per *= int64(len(gcs[si]) * len(sh.QIdx))
		}
		for _, scheme := range sh.Schemes {
			for _, layout := range sh.Layouts {
				for _, g := range gcs[si] {
					for _, q := range sh.QIdx {
						tasks = append(tasks, task{si, scheme, layout, g, q})
						total += per
					}
				}
			}
		}
	}

	type rawFail struct {
		c    rcase
		kind string
	}
	var (
		mu           sync.Mutex
		raws         []rawFail
		pathSets           = map[string]bool{}
		next         int64 = -1
		histories    int64
		queriesRun   int64
		prunedQ      int64
		histPruned   int64
		fired        int64
		dirCalls     int64
		fileCalls    int64
		globHits     int64
		partHits     int64
		required     int64
		freshAllowed int64
		freshMissing int64
		failingQ     int64
		validated    int64
		stalled      int64
		stopped      int32
		perShape     = make([]int64, len(shapes))
		samples      = ev.NewSamples(4)
		wg           sync.WaitGroup
	)
	nw := len(dbs)
	for w := 0; w < nw; w++ {
		wg.Add(1)
		go func(w int) {
			defer wg.Done()
			db := dbs[w]
			localSets := map[string]bool{}
			var localRaw []rawFail
			var lStalled int64
			var lHist, lQ, lPrunedQ, lHistPruned, lReq, lFreshA, lFreshM, lFailQ, lValidated int64
			lShape := make([]int64, len(shapes))
			for {
				ti := atomic.AddInt64(&next, 1)
				if int(ti) >= len(tasks) {
					break
				}
				if run.TimeUp() {
					atomic.StoreInt32(&stopped, 1)
					break
				}
				t := tasks[ti]
				sh := shapes[t.shape]
				gc := gcs[t.shape]
				sim := newRsim(db, t.scheme, t.layout)
				var steps []rstep
				var results []*rqres
				// node: apply gap + query on the current state, judge the query, descend
				var node func(depth int, gap []rstep, q int, prunedSoFar, stalledSoFar bool)
				node = func(depth int, gap []rstep, q int, prunedSoFar, stalledSoFar bool) {
					mark := len(steps)
					began := time.Now()
					for _, e := range gap {
						sim.apply(e)
						steps = append(steps, e)
					}
					steps = append(steps, rstep{'q', q})
					qr := sim.apply(rstep{'q', q})
					results = append(results, qr)
					lQ++
					if time.Since(began) > 10*time.Second {
						// the goroutine was not scheduled for a long time inside this step: cache entries aged for real.
						// That can only make answers fresher (never a false violation); the path is not used for the
						// branched-vs-linear comparison
						stalledSoFar = true
						lStalled++
					}
					if qr.Pruned {
						lPrunedQ++
						prunedSoFar = true
						localSets[strings.Join(qr.Paths, ",")] = true
					}
					lReq += int64(len(qr.Required))
					lFreshA += int64(len(qr.FreshAllowed))
					lFreshM += int64(qr.FreshMissing)
					if len(qr.Missing) > 0 {
						lFailQ++
						for _, kind := range []string{"hour-dir", "day-file"} {
							if rMissingOfKind(qr, kind) != "" {
								localRaw = append(localRaw, rawFail{rcase{t.scheme, t.layout, append([]rstep{}, steps...)}, kind})
							}
						}
					}
					if depth+1 == sh.Queries {
						lHist++
						lShape[t.shape]++
						if prunedSoFar {
							lHistPruned++
						}
						if lHist%499 == 1 && !stalledSoFar {
							// the branched execution must be what a linear execution on a fresh handler gives
							lin := rRun(db, t.scheme, t.layout, steps)
							for i := range lin {
								if strings.Join(lin[i].Paths, ",") != strings.Join(results[i].Paths, ",") || strings.Join(lin[i].Missing, ",") != strings.Join(results[i].Missing, ",") ||
									strings.Join(lin[i].Required, ",") != strings.Join(results[i].Required, ",") {
									cleanup()
									ev.Nondeterminism(fmt.Sprintf("remote histories: branched and linear execution differ for %s %s %v (query %d: %v vs %v)", t.scheme, t.layout, stepStrings(steps), i, results[i].Paths, lin[i].Paths))
								}
							}
							lValidated++
							if lValidated%40 == 1 {
								var ql []map[string]any
								for _, q := range results {
									ql = append(ql, map[string]any{"pruned": q.Pruned, "paths": q.Paths, "required": q.Required, "missing": q.Missing, "young_not_required": q.FreshAllowed})
								}
								samples.Add(map[string]any{"remote_history": stepStrings(steps), "scheme": t.scheme, "layout": t.layout, "queries": ql})
							}
						}
					} else {
						snap := sim.snapshot()
						first := true
						for _, g := range gc {
							for _, nq := range sh.QIdx {
								if !first {
									sim.restore(snap)
								}
								first = false
								node(depth+1, g, nq, prunedSoFar, stalledSoFar)
							}
						}
					}
					steps = steps[:mark]
					results = results[:len(results)-1]
				}
				node(0, t.gap0, t.q0, false, false)
				atomic.AddInt64(&dirCalls, int64(sim.be.dirCalls))
				atomic.AddInt64(&fileCalls, int64(sim.be.fileCalls))
				atomic.AddInt64(&fired, int64(sim.be.fired))
				gh, _, ph, _ := sim.pr.VerifCacheCounters()
				atomic.AddInt64(&globHits, gh)
				atomic.AddInt64(&partHits, ph)
			}
			atomic.AddInt64(&histories, lHist)
			atomic.AddInt64(&queriesRun, lQ)
			atomic.AddInt64(&prunedQ, lPrunedQ)
			atomic.AddInt64(&histPruned, lHistPruned)
			atomic.AddInt64(&required, lReq)
			atomic.AddInt64(&freshAllowed, lFreshA)
			atomic.AddInt64(&freshMissing, lFreshM)
			atomic.AddInt64(&failingQ, lFailQ)
			atomic.AddInt64(&validated, lValidated)
			atomic.AddInt64(&stalled, lStalled)
			mu.Lock()
			for i := range lShape {
				perShape[i] += lShape[i]
			}
			for k := range localSets {
				pathSets[k] = true
			}
			raws = append(raws, localRaw...)
			mu.Unlock()
		}(w)
	}
	wg.Wait()
	exhaustive := stopped == 0
	tEnum := time.Since(t0)

	// ---- minimise: shortest failing sub-history of every raw failure (memoised replays), then one canonical
	// representative per distinct shortest form
	sort.Slice(raws, func(i, j int) bool {
		a, b := raws[i], raws[j]
		if len(a.c.Steps) != len(b.c.Steps) {
			return len(a.c.Steps) < len(b.c.Steps)
		}
		ka, kb := rKey(a.c.Scheme, a.c.Layout, a.c.Steps)+a.kind, rKey(b.c.Scheme, b.c.Layout, b.c.Steps)+b.kind
		return ka < kb
	})
	var replays int64
	memo := &sync.Map{}
	type minimal struct {
		c    rcase
		kind string
	}
	shortests := map[string]minimal{}
	next = -1
	for w := 0; w < nw; w++ {
		wg.Add(1)
		go func(w int) {
			defer wg.Done()
			m := &rminimiser{dbs[w], canonLayouts, memo, &replays}
			local := map[string]minimal{}
			for {
				i := atomic.AddInt64(&next, 1)
				if int(i) >= len(raws) {
					break
				}
				mc := m.shortest(raws[i].c, raws[i].kind)
				local[rKey(mc.Scheme, mc.Layout, mc.Steps)+"#"+raws[i].kind] = minimal{mc, raws[i].kind}
			}
			mu.Lock()
			for k, v := range local {
				shortests[k] = v
			}
			mu.Unlock()
		}(w)
	}
	wg.Wait()
	var skeys []string
	for k := range shortests {
		skeys = append(skeys, k)
	}
	sort.Strings(skeys)
	minimals := map[string]minimal{}
	next = -1
	for w := 0; w < nw; w++ {
		wg.Add(1)
		go func(w int) {
			defer wg.Done()
			m := &rminimiser{dbs[w], canonLayouts, memo, &replays}
			for {
				i := atomic.AddInt64(&next, 1)
				if int(i) >= len(skeys) {
					return
				}
				sm := shortests[skeys[i]]
				mc := m.canonical(sm.c, sm.kind)
				mu.Lock()
				minimals[rKey(mc.Scheme, mc.Layout, mc.Steps)+"#"+sm.kind] = minimal{mc, sm.kind}
				mu.Unlock()
			}
		}(w)
	}
	wg.Wait()
	var mkeys []string
	for k := range minimals {
		mkeys = append(mkeys, k)
	}
	sort.Slice(mkeys, func(i, j int) bool {
		a, b := minimals[mkeys[i]], minimals[mkeys[j]]
		if len(a.c.Steps) != len(b.c.Steps) {
			return len(a.c.Steps) < len(b.c.Steps)
		}
		return mkeys[i] < mkeys[j]
	})
	sigs := map[string]bool{}
	for _, k := range mkeys {
		mn := minimals[k]
		// re-executed twice, uncached: same observation or HARNESS-NONDETERMINISM
		r1, r2 := rRun(dbs[0], mn.c.Scheme, mn.c.Layout, mn.c.Steps), rRun(dbs[0], mn.c.Scheme, mn.c.Layout, mn.c.Steps)
		q1, q2 := r1[len(r1)-1], r2[len(r2)-1]
		lost := rMissingOfKind(q1, mn.kind)
		if lost == "" || strings.Join(q1.Missing, ",") != strings.Join(q2.Missing, ",") || strings.Join(q1.Paths, ",") != strings.Join(q2.Paths, ",") {
			cleanup()
			ev.Nondeterminism("remote history does not reproduce identically: " + k)
		}
		sig := rSignature(mn.c, mn.kind, lost)
		sigs[sig] = true
		hs := stepStrings(mn.c.Steps)
		var objs []string
		for o := range rInitialObjects(mn.c.Layout) {
			objs = append(objs, o)
		}
		sort.Strings(objs)
		var ql []map[string]any
		for _, q := range r1 {
			ql = append(ql, map[string]any{"sql": q.SQL, "pruned": q.Pruned, "paths": q.Paths, "required_partitions": q.Required, "missing_partitions": q.Missing, "young_partitions_not_required": q.FreshAllowed})
		}
		run.Violate(sig,
			fmt.Sprintf("remote storage: the pruned path list of the last query omits partition %s, which holds data in its time window (store objects listed through a fake %s backend; history: %s)",
				lost, mn.c.Scheme, strings.Join(hs, "; ")),
			map[string]any{"scheme": mn.c.Scheme, "table_path": rBase(mn.c.Scheme) + "/" + rDB + "/" + rMeas + "/**/*.parquet",
				"initial_layout": mn.c.Layout, "initial_objects": objs, "history": hs, "queries": ql,
				"how": "api.NewQueryHandler over a storage.Backend+DirectoryLister fake (Type()=" + mn.c.Scheme + "); one handler for the whole history; each query through QueryHandler.buildReadParquetExpr(path, sql); 'N s pass' ages the pruner's cache entries by N s"})
	}

	// vacuity guards: the histories must reach the remote filter, its cache-hit paths and the injected faults.
	// Only when nothing was found: a defect may itself starve a counter (a partition cache that answers every
	// later query leaves the glob cache without hits), and then the violations are the result to report.
	if exhaustive && len(sigs) == 0 && (dirCalls == 0 || fileCalls == 0 || globHits == 0 || partHits == 0 || fired == 0 || prunedQ == 0 || freshMissing == 0 || validated == 0) {
		cleanup()
		ev.Unbound(fmt.Sprintf("remote histories are vacuous: list-dirs calls %d, list-files calls %d, glob-cache hits %d, partition-cache hits %d, faults fired %d, pruned queries %d, stale answers inside the allowance %d, linear validations %d",
			dirCalls, fileCalls, globHits, partHits, fired, prunedQ, freshMissing, validated))
	}

	var shapeCov []map[string]any
	for i, sh := range shapes {
		var qn []string
		for _, q := range sh.QIdx {
			qn = append(qn, rQueriesAll[q].Name)
		}
		shapeCov = append(shapeCov, map[string]any{"shape": sh.Name, "schemes": sh.Schemes, "layouts": sh.Layouts, "sql_texts": qn,
			"queries_per_history": sh.Queries, "events_per_gap_max": sh.GapMax, "event_alphabet": stepStrings(sh.Events),
			"gap_choices": len(gcs[i]), "histories": int(perShape[i])})
	}
	run.Coverage["remote_histories"] = map[string]any{
		"histories": int(histories), "histories_enumerated": int(total), "exhaustive": exhaustive, "queries_judged": int(queriesRun),
		"queries_pruned": int(prunedQ), "histories_with_a_pruned_query": int(histPruned), "distinct_pruned_path_sets": len(pathSets),
		"list_directories_calls": int(dirCalls), "list_files_calls": int(fileCalls), "glob_cache_hits": int(globHits), "partition_cache_hits": int(partHits),
		"faults_fired": int(fired),
		"histories_validated_against_linear_replay": int(validated), "steps_stalled_over_10s_wall": int(stalled),
		"required_partition_checks": int(required), "young_partition_checks_not_required": int(freshAllowed),
		"young_partitions_actually_missing(stale answer inside the allowance)": int(freshMissing),
		"queries_missing_a_required_partition":                                 int(failingQ), "raw_failures": len(raws), "distinct_shortest_sub_histories": len(shortests),
		"minimisation_replays": int(replays), "minimal_histories": len(minimals), "classes": len(sigs),
		"staleness_allowance_s": rStaleBound, "age_steps_s": rAge[:], "shapes": shapeCov,
		"day_states": "E no data, H hour directories, C day-level compacted file only, M day-level file + one hour directory",
		"rule":       "history = [gap] query [gap] query ([gap] query); gap = every set of at most events_per_gap_max events of the alphabet (canonical order); query = every SQL text of the shape at every position; every initial layout x scheme of the shape. One api.QueryHandler (its own pruner, glob cache, partition cache) over a fake remote backend serving List/ListDirectories from an object-key set; a history prefix is executed once and its continuations are branched off a verbatim copy of the state (store, fault plan, cache entries); every 499th history per worker is re-executed linearly on a fresh handler and must agree. Every query of every history is judged once: each partition (hour directory / day-level file) that holds an object, intersects the query's half-open window and is older than glob TTL + partition TTL (or predates the last invalidation) must be in the read_parquet path list the handler's rewrite step produces, unless that is the unpruned glob; over-inclusion is allowed. Non-trivial = at least one query of the history got a pruned list; distinct = distinct pruned path sets.",
	}
	remoteSamples = samples.List()
	fmt.Printf("C18 remote histories=%d/%d queries=%d pruned=%d distinct_path_sets=%d faults_fired=%d glob_hits=%d partition_hits=%d stale_inside_allowance=%d linear_validated=%d failing_queries=%d shortest=%d minimal=%d classes=%d exhaustive=%v enumerate=%.1fs total=%.1fs\n",
		histories, total, queriesRun, prunedQ, len(pathSets), fired, globHits, partHits, freshMissing, validated, failingQ, len(shortests), len(minimals), len(sigs), exhaustive, tEnum.Seconds(), time.Since(t0).Seconds())
	return exhaustive
}
