// C18 — Partition pruning never changes query results.
//
// Differential, bounded-exhaustive: every query of a small grammar is sent through the REAL query HTTP
// handler (api.QueryHandler on a real storage.LocalBackend + real database.DuckDB, duckdb_arrow build)
// twice on the same, static store: once by a handler whose partition pruner is enabled (production
// default) and once by a handler whose pruner is switched off (PartitionPruner.enabled=false, flipped by
// an in-package overlay accessor). Oracle: identical status / columns / rows (sequence when the query is
// fully ordered, multiset otherwise) / row_count.
//
// The store is written by Arc's own ingest path (ingest.ArrowBuffer -> hour directories); compacted day
// files are produced from those hour files with the same DuckDB COPY shape compaction uses.
//
// Besides the WHERE grammar on the three base measurements there is a window grid (see "window grid"
// below): three consecutive days, every assignment of {hour directories, day-level compacted file} to
// them as a separate measurement, and every window between the instants of a small day x time-of-day grid
// in several comparison forms; for these the unpruned result is additionally compared with the rows the
// fixture puts in the window.
//
// Every raw difference is minimised (template -> plain, measurement -> first failing layout, boolean
// structure -> sub-expressions, atoms -> first failing atom of a canonical order) while the same witness
// (a lost-row tag) keeps failing, and reported under the class signature
//
//	<oracle-kind>|tmpl=<template>|<minimal WHERE, literals symbolic>|lost=<row tags>|layout=<layout>
package main

import (
	"bytes"
	"context"
	"database/sql"
	"encoding/json"
	"fmt"
	"io"
	"net/http/httptest"
	"os"
	"path/filepath"
	"regexp"
	"runtime"
	"sort"
	"strings"
	"sync"
	"sync/atomic"
	"time"

	"github.com/basekick-labs/arc/internal/api"
	"github.com/basekick-labs/arc/internal/config"
	"github.com/basekick-labs/arc/internal/database"
	"github.com/basekick-labs/arc/internal/ingest"
	"github.com/basekick-labs/arc/internal/storage"
	"github.com/basekick-labs/arc/zzverif/engine/ev"
	_ "github.com/duckdb/duckdb-go/v2"
	"github.com/gofiber/fiber/v2"
	"github.com/rs/zerolog"
)

const dbName = "c18"

var scratch string

var exhaustiveDev bool

func cleanup() {
	if scratch != "" {
		os.RemoveAll(scratch)
	}
}

func must(err error, what string) {
	if err != nil {
		cleanup()
		ev.Unbound(what + ": " + err.Error())
	}
}

// ---- data ---------------------------------------------------------------------------------------

type anchor struct {
	Tag string    // class of the row for signatures
	Sym string    // symbolic instant (stable across days)
	T   time.Time // concrete instant
}

var (
	runNow  time.Time // wall clock at process start
	hourNow time.Time // runNow truncated to the hour
	anchors []anchor
)

func utc(s string) time.Time {
	t, err := time.Parse("2006-01-02 15:04:05", s)
	if err != nil {
		panic(err)
	}
	return t.UTC()
}

// Rows sit >= 22 h away from every NOW()+-INTERVAL boundary used by the grammar (1 day, 3 days, 72 hours,
// 1 week, 1 month back; 1 day, 5 days ahead) and from the pruner's implicit "now + 1 day" end, for every
// "now" within the run (internal deadline 40 min).
func buildAnchors() {
	runNow = time.Now().UTC()
	hourNow = runNow.Truncate(time.Hour)
	anchors = []anchor{
		{"pre2020", "2019-12-31 22:30:00", utc("2019-12-31 22:30:00")},
		{"y2020", "2020-01-01 05:00:00", utc("2020-01-01 05:00:00")},
		{"end-boundary", "2020-01-02 10:00:00", utc("2020-01-02 10:00:00")},
		{"y2020", "2020-01-02 10:30:00", utc("2020-01-02 10:30:00")},
		{"y2020", "2020-01-02 18:45:00", utc("2020-01-02 18:45:00")},
		{"end-boundary", "2020-01-03 00:00:00", utc("2020-01-03 00:00:00")},
		{"y2020", "2020-01-03 12:15:00", utc("2020-01-03 12:15:00")},
		{"recent", "{H-48h30m}", hourNow.Add(-49*time.Hour + 30*time.Minute)},
		{"future", "{H+72h30m}", hourNow.Add(72*time.Hour + 30*time.Minute)},
	}
}

type measurement struct {
	Name   string
	Layout string
	IDBase int
	Grid   string // window-grid measurements: storage state of grid day D0,D1,D2 (H hour dirs, C day file, M day file + one hour dir)
}

var measurements = []measurement{
	{"cpu", "hour-dirs", 100, ""},
	{"mem", "day-files", 200, ""},
	{"disk", "day-file+hour-dirs", 300, ""},
}

var tagOfID = map[int64]string{}

// ---- window grid: consecutive days in mixed storage states x enumerated time windows ---------------
//
// Three consecutive calendar days D0..D2 (2020-02-28, the leap day, 2020-03-01: a month boundary lies
// inside) hold the same rows in every grid measurement; the measurements differ only in how each day is
// stored: H = hour directories, C = compacted into one day-level file (hour directories gone),
// M (thorough) = day-level file plus one hour directory that has not been compacted yet. Every assignment
// of states to the three days is a layout ({H,C}^3 = 8 quick, {H,C,M}^3 = 27 thorough), so "later day
// compacted, earlier not" and the reverse are both present for every pair of days.
//
// Window bounds are taken from the instants {D0,D1,D2} x times of day {00:00, 03:30, 22:00} (thorough: +
// 12:00) plus D3 00:00; every ordered pair (start < end) is a window: inside one day, across one, two and
// three midnights, with the end's time-of-day before / equal to / after the start's, starting and/or ending
// exactly at 00:00, on an hour boundary that is not midnight (22:00) and inside an hour (03:30). Rows sit 15
// minutes before and after every bound instant, so every partition a window may or may not read next to
// its bounds holds a row; no row sits exactly on a bound (an inclusive end exactly on a partition boundary
// is the F5 class, covered by the 2020-01 cluster).
var (
	gridDays         = []string{"2020-02-28", "2020-02-29", "2020-03-01"}
	gridEndDay       = "2020-03-02"
	gridToD          = []time.Duration{0, 3*time.Hour + 30*time.Minute, 22 * time.Hour}
	gridToDThorough  = []time.Duration{12 * time.Hour} // windows using these sort after all quick windows
	gridLeftoverHour = "22"                            // the hour directory state M keeps next to the day file

	gridListing  = map[string][]string{} // grid measurement -> partition directories holding a file
	gridInstants []time.Time             // bounds, ascending
	gridRows     []anchor                // identical in every grid measurement
	gridFirst    int                     // index of the first grid measurement
	gridExtra    = map[int64]bool{}      // instants that exist in the thorough tier only
)

func gridDay(i int) time.Time {
	d := gridEndDay
	if i < len(gridDays) {
		d = gridDays[i]
	}
	return utc(d + " 00:00:00")
}

func buildGrid(full bool) {
	for i := range gridDays {
		for _, tod := range gridToD {
			gridInstants = append(gridInstants, gridDay(i).Add(tod))
		}
		if full {
			for _, tod := range gridToDThorough {
				gridInstants = append(gridInstants, gridDay(i).Add(tod))
				gridExtra[gridDay(i).Add(tod).Unix()] = true
			}
		}
	}
	gridInstants = append(gridInstants, gridDay(len(gridDays)))
	sort.Slice(gridInstants, func(i, j int) bool { return gridInstants[i].Before(gridInstants[j]) })
	lo, hi := gridInstants[0], gridInstants[len(gridInstants)-1]
	seen := map[int64]bool{}
	for _, b := range gridInstants {
		for _, t := range []time.Time{b.Add(-15 * time.Minute), b.Add(15 * time.Minute)} {
			if t.Before(lo) || !t.Before(hi) || seen[t.Unix()] {
				continue
			}
			seen[t.Unix()] = true
			di := int(t.Sub(lo) / (24 * time.Hour))
			gridRows = append(gridRows, anchor{fmt.Sprintf("grid-d%d", di), isoStr(t), t})
		}
	}
	sort.Slice(gridRows, func(i, j int) bool { return gridRows[i].T.Before(gridRows[j].T) })
	states := "HC"
	if full {
		states = "HCM"
	}
	var layouts []string
	var rec func(prefix string)
	rec = func(prefix string) {
		if len(prefix) == len(gridDays) {
			layouts = append(layouts, prefix)
			return
		}
		for _, s := range states {
			rec(prefix + string(s))
		}
	}
	rec("")
	// canonical order (also the order the minimiser tries layouts in): no M before any M, then fewer
	// non-H days first, then lexicographic. The quick layouts are a prefix of the thorough ones.
	weight := func(l string) int {
		return strings.Count(l, "M")*100 + (len(l)-strings.Count(l, "H"))*10
	}
	sort.SliceStable(layouts, func(i, j int) bool {
		if a, b := weight(layouts[i]), weight(layouts[j]); a != b {
			return a < b
		}
		return layouts[i] < layouts[j]
	})
	gridFirst = len(measurements)
	for i, l := range layouts {
		measurements = append(measurements, measurement{"g_" + strings.ToLower(l), "grid-" + l, 1000 + 100*i, l})
	}
}

func isoStr(t time.Time) string { return t.Format("2006-01-02 15:04:05") }

func rowsOf(m measurement) []anchor {
	if m.Grid != "" {
		return gridRows
	}
	return anchors
}

// buildStore writes the three measurements through Arc's real ingest buffer, then compacts days for the
// day-file layouts. event_time / uptime are ISO strings of OTHER anchors (a rotation), so predicates on
// them select rows whose `time` lies in unrelated partitions.
func buildStore(root string) []string {
	lg := zerolog.Nop()
	be, err := storage.NewLocalBackend(root, lg)
	must(err, "NewLocalBackend")
	cfg := &config.IngestConfig{MaxBufferSize: 1_000_000, MaxBufferAgeMS: 3_600_000, Compression: "snappy", FlushWorkers: 1,
		FlushQueueSize: 16, ShardCount: 1, FlushTimeoutSeconds: 60, WriteStatistics: true}
	buf := ingest.NewArrowBuffer(cfg, be, lg)
	for _, m := range measurements {
		var ts []int64
		var id, k, host, v, et, ut []interface{}
		anchors := rowsOf(m)
		n := len(anchors)
		for i, a := range anchors {
			ts = append(ts, a.T.UnixMicro())
			id = append(id, int64(m.IDBase+i))
			k = append(k, int64(i))
			if i%2 == 0 {
				host = append(host, "a")
			} else {
				host = append(host, "b")
			}
			v = append(v, float64(i+1))
			et = append(et, isoStr(anchors[(i+3)%n].T))
			ut = append(ut, isoStr(anchors[(i+5)%n].T))
			tagOfID[int64(m.IDBase+i)] = a.Tag
		}
		cols := map[string][]interface{}{"id": id, "k": k, "host": host, "v": v, "event_time": et, "uptime": ut}
		tcol := make([]interface{}, len(ts))
		for i := range ts {
			tcol[i] = ts[i]
		}
		cols["time"] = tcol
		must(buf.WriteColumnarDirect(context.Background(), dbName, m.Name, cols), "ingest write "+m.Name)
	}
	must(buf.FlushAll(context.Background()), "ingest flush")
	must(buf.Close(), "ingest close")

	// compaction into day files with a plain DuckDB (same COPY shape as internal/compaction/dedup.go)
	odb, err := sql.Open("duckdb", "")
	must(err, "plain duckdb")
	defer odb.Close()
	compactDay := func(meas, day string, hours []string) {
		var files []string
		for _, h := range hours {
			g, _ := filepath.Glob(filepath.Join(root, dbName, meas, day, h, "*.parquet"))
			files = append(files, g...)
		}
		if len(files) == 0 {
			must(fmt.Errorf("no hour files for %s %s", meas, day), "compact")
		}
		sort.Strings(files)
		var q []string
		for _, f := range files {
			q = append(q, "'"+f+"'")
		}
		out := filepath.Join(root, dbName, meas, day, fmt.Sprintf("%s_%s_000000_1_b0_daily.parquet", meas, strings.ReplaceAll(day, "/", "")))
		_, err := odb.Exec(fmt.Sprintf(`COPY (SELECT * FROM read_parquet([%s], union_by_name=true) ORDER BY "time") TO '%s' (FORMAT PARQUET, COMPRESSION ZSTD, COMPRESSION_LEVEL 3, ROW_GROUP_SIZE 122880)`, strings.Join(q, ","), out))
		must(err, "compaction COPY")
		for _, h := range hours {
			os.RemoveAll(filepath.Join(root, dbName, meas, day, h))
		}
	}
	daysHours := map[string]map[string]bool{}
	for _, a := range anchors {
		d := a.T.Format("2006/01/02")
		if daysHours[d] == nil {
			daysHours[d] = map[string]bool{}
		}
		daysHours[d][a.T.Format("15")] = true
	}
	for d, hs := range daysHours {
		var all []string
		for h := range hs {
			all = append(all, h)
		}
		sort.Strings(all)
		compactDay("mem", d, all) // every day of mem is a compacted day file
		// disk: 2019/2020 days compacted except the 18:45 hour of 2020-01-02 (still an hour directory);
		// the now-relative days stay hour directories
		if strings.HasPrefix(d, "2019") || strings.HasPrefix(d, "2020") {
			var sub []string
			for _, h := range all {
				if !(d == "2020/01/02" && h == "18") {
					sub = append(sub, h)
				}
			}
			compactDay("disk", d, sub)
		}
	}
	// window-grid measurements: day i is left as hour directories (H), compacted entirely (C), or compacted
	// except for one hour directory (M)
	for _, m := range measurements {
		for di, st := range m.Grid {
			if st == 'H' {
				continue
			}
			hs := map[string]bool{}
			for _, r := range gridRows {
				if r.T.Format("2006-01-02") == gridDays[di] && !(st == 'M' && r.T.Format("15") == gridLeftoverHour) {
					hs[r.T.Format("15")] = true
				}
			}
			var hours []string
			for h := range hs {
				hours = append(hours, h)
			}
			sort.Strings(hours)
			compactDay(m.Name, strings.ReplaceAll(gridDays[di], "-", "/"), hours)
		}
	}
	var listing []string
	filepath.WalkDir(root, func(p string, d os.DirEntry, err error) error {
		if err == nil && !d.IsDir() && strings.HasSuffix(p, ".parquet") {
			rel, _ := filepath.Rel(root, p)
			if parts := strings.SplitN(rel, "/", 3); len(parts) == 3 && strings.HasPrefix(parts[1], "g_") {
				gridListing[parts[1]] = append(gridListing[parts[1]], filepath.Dir(parts[2])+"/")
				return nil
			}
			listing = append(listing, filepath.Dir(rel)+"/")
		}
		return nil
	})
	sort.Strings(listing)
	for _, l := range gridListing {
		sort.Strings(l)
	}
	return listing
}

// ---- grammar -------------------------------------------------------------------------------------

type lit struct {
	Sym string // what the signature shows
	SQL string // what the query contains
}

func qlit(s string) lit { return lit{"'" + s + "'", "'" + s + "'"} }

type atom struct {
	Col    string
	Op     string // >= > < <= = BETWEEN
	L1, L2 lit
}

func (a *atom) render(prefix string, sym bool) string {
	l1, l2 := a.L1.SQL, a.L2.SQL
	if sym {
		l1, l2 = a.L1.Sym, a.L2.Sym
	}
	if a.Op == "BETWEEN" {
		return prefix + a.Col + " BETWEEN " + l1 + " AND " + l2
	}
	return prefix + a.Col + " " + a.Op + " " + l1
}

type expr struct {
	Kind byte // 'a' atom, '!' NOT, '&' AND, '|' OR
	A    *atom
	X, Y *expr
}

func (e *expr) render(prefix string, sym bool, top bool) string {
	switch e.Kind {
	case 'a':
		return e.A.render(prefix, sym)
	case '!':
		if e.X.Kind == 'a' {
			return "NOT " + e.X.render(prefix, sym, false)
		}
		return "NOT " + e.X.render(prefix, sym, false) // binary children parenthesise themselves
	}
	op := " AND "
	if e.Kind == '|' {
		op = " OR "
	}
	s := e.X.render(prefix, sym, false) + op + e.Y.render(prefix, sym, false)
	if top {
		return s
	}
	return "(" + s + ")"
}

func (e *expr) size() int {
	switch e.Kind {
	case 'a':
		return 1
	case '!':
		return 1 + e.X.size()
	}
	return 1 + e.X.size() + e.Y.size()
}

func (e *expr) hasTimePredicate() bool {
	switch e.Kind {
	case 'a':
		return strings.HasSuffix(e.A.Col, "time")
	case '!':
		return e.X.hasTimePredicate()
	}
	return e.X.hasTimePredicate() || e.Y.hasTimePredicate()
}

var (
	// absolute literals (2020 cluster)
	lC2  = qlit("2020-01-02 10:00:00")       // exactly the hour-boundary row
	lC1  = qlit("2020-01-01")                // date only, between pre2020 and the first 2020 row
	lC3  = qlit("2020-01-03")                // date only, exactly the day-boundary row
	lC4  = qlit("2020-01-04")                // after all 2020 rows
	lC2m = qlit("2020-01-02 10:15:00")       // mid-hour
	lC2z = qlit("2020-01-02T10:00:00Z")      // = lC2, RFC3339 Z
	lC2o = qlit("2020-01-02T12:00:00+02:00") // = lC2, +02:00 offset
	lP   = qlit("2019-12-31")                // before everything
	lC2h = qlit("2020-01-02 10:30:00")       // half past, exactly a row (start not aligned to the hour)
	lC5  = qlit("2020-01-03 12:20:00")       // end inside an hour, 5 min after the last 2020 row
	// literals relative to the run (concrete text differs per run, symbol is stable)
	lR1, lR1z, lR2 lit
	// NOW()-relative expressions
	nN1   = lit{"NOW() - INTERVAL '1 day'", "NOW() - INTERVAL '1 day'"}
	nN3   = lit{"NOW() - INTERVAL '3 days'", "NOW() - INTERVAL '3 days'"}
	nP1   = lit{"NOW() + INTERVAL '1 day'", "NOW() + INTERVAL '1 day'"}
	nP5   = lit{"NOW() + INTERVAL '5 days'", "NOW() + INTERVAL '5 days'"}
	nC72  = lit{"CURRENT_TIMESTAMP - INTERVAL '72 hours'", "CURRENT_TIMESTAMP - INTERVAL '72 hours'"}
	nNw   = lit{"NOW() - INTERVAL '1 week'", "NOW() - INTERVAL '1 week'"}
	nNm   = lit{"NOW() - INTERVAL '1 month'", "NOW() - INTERVAL '1 month'"}
	nNow  = lit{"NOW()", "NOW()"}
	ops   = []string{">=", "<", ">", "<=", "="}
	hostA = &atom{Col: "host", Op: "=", L1: qlit("a")}
	vGt3  = &atom{Col: "v", Op: ">", L1: lit{"3", "3"}}
)

func buildRelLits() {
	r1 := anchors[7].T.Add(-time.Hour)
	r2 := anchors[8].T.Add(time.Hour)
	lR1 = lit{"'{H-49h30m}'", "'" + isoStr(r1) + "'"}
	lR1z = lit{"'{H-49h30m}Z'", "'" + r1.Format(time.RFC3339) + "'"}
	lR2 = lit{"'{H+73h30m}'", "'" + isoStr(r2) + "'"}
}

// canonical orders (also the order in which the minimiser tries replacement atoms)
func timeLits(full bool) []lit {
	l := []lit{lC2, lC1, lC3, lC4, lC2m, lC2z, lC2o, lP, lC2h, lC5, lR1, lR1z, lR2, nN1, nN3, nP1, nP5}
	if full {
		l = append(l, nC72, nNw, nNm)
	}
	return l
}

func betweenPairs(full bool) [][2]lit {
	p := [][2]lit{{lC1, lC2}, {lC1, lC3}, {lC2, lC4}, {lP, lC1}, {lC2z, lC2o}, {lR1, lR2}}
	if full {
		p = append(p, [2]lit{lC2m, lC3}, [2]lit{lP, lC4}, [2]lit{lC1, lR2}, [2]lit{nN3, nNow})
	}
	return p
}

// depth-0 alphabet: every operator x every literal for time; a smaller literal set for the two
// string columns whose names end in "time"; two non-time atoms.
func alphabet0(full bool) []*atom {
	var out []*atom
	for _, op := range ops {
		for _, l := range timeLits(full) {
			out = append(out, &atom{Col: "time", Op: op, L1: l})
		}
	}
	for _, p := range betweenPairs(full) {
		out = append(out, &atom{Col: "time", Op: "BETWEEN", L1: p[0], L2: p[1]})
	}
	for _, col := range []string{"uptime", "event_time"} {
		for _, op := range ops {
			for _, l := range []lit{lC2, lC1, lC3, lR1} {
				out = append(out, &atom{Col: col, Op: op, L1: l})
			}
		}
		out = append(out, &atom{Col: col, Op: "BETWEEN", L1: lC1, L2: lC3})
	}
	out = append(out, hostA, vGt3)
	return out
}

func alphabet1(full bool) []*atom {
	a := []*atom{
		{Col: "time", Op: ">=", L1: lC2}, {Col: "time", Op: "<", L1: lC3}, {Col: "time", Op: "<=", L1: lC2},
		{Col: "time", Op: ">=", L1: lC1}, {Col: "time", Op: ">=", L1: lC2h}, {Col: "time", Op: "<", L1: lC5},
		{Col: "time", Op: ">=", L1: lC2o},
		{Col: "time", Op: ">=", L1: lR1}, {Col: "time", Op: "<", L1: lR2},
		{Col: "time", Op: ">=", L1: nN3}, {Col: "time", Op: "<=", L1: nP5},
		{Col: "time", Op: "BETWEEN", L1: lC1, L2: lC3},
		{Col: "uptime", Op: ">=", L1: lC2}, {Col: "event_time", Op: "<", L1: lC3},
		hostA,
	}
	if full {
		a = append(a, &atom{Col: "time", Op: ">", L1: lC2m}, &atom{Col: "time", Op: "<", L1: lC4}, &atom{Col: "time", Op: "=", L1: lC2},
			&atom{Col: "time", Op: "<", L1: nP1}, vGt3)
	}
	return a
}

func alphabet2(full bool) []*atom {
	a := []*atom{
		{Col: "time", Op: ">=", L1: lC2}, {Col: "time", Op: "<", L1: lC3}, {Col: "time", Op: ">=", L1: lR1}, hostA,
	}
	if full {
		a = append(a, &atom{Col: "time", Op: "<", L1: lR2}, &atom{Col: "uptime", Op: ">=", L1: lC2})
	}
	return a
}

func atomsToExprs(as []*atom) []*expr {
	var out []*expr
	for _, a := range as {
		out = append(out, &expr{Kind: 'a', A: a})
	}
	return out
}

// ---- window-grid expressions ------------------------------------------------------------------------

type gwin struct {
	S, E      time.Time
	Midnights int  // UTC midnights strictly inside (S, E)
	Extra     bool // a bound exists in the thorough tier only
}

// gridWindows: every ordered pair of grid instants, simplest first (fewest midnights inside, shortest,
// earliest) - the order in which the minimiser looks for the representative of a failing class.
func gridWindows() []gwin {
	var ws []gwin
	for i, s := range gridInstants {
		for _, e := range gridInstants[i+1:] {
			n := 0
			for d := 1; d <= len(gridDays); d++ {
				if m := gridDay(d); m.After(s) && m.Before(e) {
					n++
				}
			}
			ws = append(ws, gwin{s, e, n, gridExtra[s.Unix()] || gridExtra[e.Unix()]})
		}
	}
	sort.SliceStable(ws, func(i, j int) bool {
		a, b := ws[i], ws[j]
		if a.Extra != b.Extra {
			return b.Extra
		}
		if a.Midnights != b.Midnights {
			return a.Midnights < b.Midnights
		}
		if da, db := a.E.Sub(a.S), b.E.Sub(b.S); da != db {
			return da < db
		}
		return a.S.Before(b.S)
	})
	return ws
}

// offLit writes the instant as an RFC3339 literal with a fixed UTC offset (the literal's calendar date and
// hour differ from the UTC partition the instant belongs to).
func offLit(t time.Time, offHours int) lit {
	s := t.In(time.FixedZone("", offHours*3600)).Format(time.RFC3339)
	return qlit(s)
}

type gform struct {
	Name string
	Make func(s, e lit) *expr
	Lit  func(t time.Time) lit
}

func tAtom(op string, l lit) *expr { return &expr{Kind: 'a', A: &atom{Col: "time", Op: op, L1: l}} }

func plainLit(t time.Time) lit { return qlit(isoStr(t)) }

func gridForms(full bool) []gform {
	pair := func(lo, hi string) func(s, e lit) *expr {
		return func(s, e lit) *expr { return &expr{Kind: '&', X: tAtom(lo, s), Y: tAtom(hi, e)} }
	}
	between := func(s, e lit) *expr { return &expr{Kind: 'a', A: &atom{Col: "time", Op: "BETWEEN", L1: s, L2: e}} }
	off := func(h int) func(t time.Time) lit { return func(t time.Time) lit { return offLit(t, h) } }
	f := []gform{
		{"ge-lt", pair(">=", "<"), plainLit},
		{"gt-le", pair(">", "<="), plainLit},
		{"between", between, plainLit},
		{"ge-lt+02:00", pair(">=", "<"), off(2)},
		{"between-05:00", between, off(-5)},
	}
	if full {
		f = append(f, gform{"gt-le-Z", pair(">", "<="), off(0)}, gform{"ge-le+02:00", pair(">=", "<="), off(2)},
			gform{"gt-lt-05:00", pair(">", "<"), off(-5)})
	}
	return f
}

var (
	gridCanon []*expr              // every grid WHERE of this tier, canonical order (form-major, then gridWindows order)
	gridWinOf = map[string]*gwin{} // symbolic rendering -> window (ground truth, window-form test)
)

func buildGridExprs(full bool) {
	ws := gridWindows()
	for _, f := range gridForms(full) {
		for i := range ws {
			e := f.Make(f.Lit(ws[i].S), f.Lit(ws[i].E))
			gridCanon = append(gridCanon, e)
			gridWinOf[e.render("", true, true)] = &ws[i]
		}
	}
}

func gridWindowOf(e *expr) *gwin { return gridWinOf[e.render("", true, true)] }

// gridExpected: ids the window selects in grid measurement m by construction of the fixture (no row sits on
// a bound, so inclusive and exclusive comparison operators select the same rows).
func gridExpected(m measurement, w *gwin) []int64 {
	var ids []int64
	for i, r := range gridRows {
		if !r.T.Before(w.S) && r.T.Before(w.E) {
			ids = append(ids, int64(m.IDBase+i))
		}
	}
	return ids
}

// deepen: E(n+1) = E(n) + NOT E(n) + (E(n) AND E(n)) + (E(n) OR E(n)); returns only the NEW expressions.
func deepen(prev []*expr) []*expr {
	var out []*expr
	for _, x := range prev {
		out = append(out, &expr{Kind: '!', X: x})
	}
	for _, k := range []byte{'&', '|'} {
		for _, x := range prev {
			for _, y := range prev {
				out = append(out, &expr{Kind: k, X: x, Y: y})
			}
		}
	}
	return out
}

// ---- templates -----------------------------------------------------------------------------------

type tmpl struct {
	Name    string
	Multi   bool   // uses cpu and mem together; the measurement dimension is not iterated
	Pred    string // measurement whose columns the WHERE expression refers to (multi templates)
	Prefix  string // column qualifier for the atoms
	Ordered bool   // result fully ordered -> compared as a sequence
	IDFirst bool   // first output column is a row id (lost rows get tags)
	Header  bool   // x-arc-database header instead of db.table
	SQL     string // %M measurement, %W where
}

var templates = []tmpl{
	{Name: "plain", Ordered: true, IDFirst: true, SQL: "SELECT id, time, host, v FROM c18.%M WHERE %W ORDER BY id"},
	{Name: "no-order", IDFirst: true, SQL: "SELECT id, v FROM c18.%M WHERE %W"},
	{Name: "limit", IDFirst: true, SQL: "SELECT id FROM c18.%M WHERE %W LIMIT 100"},
	{Name: "aggregate", Ordered: true, SQL: "SELECT count(*) AS n, sum(v) AS s FROM c18.%M WHERE %W"},
	{Name: "group-by", Ordered: true, SQL: "SELECT host, count(*) AS n FROM c18.%M WHERE %W GROUP BY host ORDER BY host"},
	{Name: "from-subquery", Ordered: true, IDFirst: true, SQL: "SELECT s.id, s.v FROM (SELECT * FROM c18.%M WHERE %W) s ORDER BY s.id"},
	{Name: "header-db", Ordered: true, IDFirst: true, Header: true, SQL: "SELECT id, time, host, v FROM %M WHERE %W ORDER BY id"},
	// two measurements: the time predicate belongs to ONE of them
	{Name: "in-subquery", Multi: true, Pred: "mem", Ordered: true, IDFirst: true,
		SQL: "SELECT id, host FROM c18.cpu WHERE host IN (SELECT host FROM c18.mem WHERE %W) ORDER BY id"},
	{Name: "not-in-subquery", Multi: true, Pred: "mem", Ordered: true, IDFirst: true,
		SQL: "SELECT id, host FROM c18.cpu WHERE host NOT IN (SELECT host FROM c18.mem WHERE %W) ORDER BY id"},
	{Name: "join", Multi: true, Pred: "cpu", Prefix: "c.", Ordered: true, IDFirst: true,
		SQL: "SELECT m.id, c.id AS cid FROM c18.cpu c JOIN c18.mem m ON c.host = m.host WHERE %W ORDER BY m.id, cid"},
	{Name: "left-join", Multi: true, Pred: "cpu", Prefix: "c.", Ordered: true,
		SQL: "SELECT c.id, m.id AS mid FROM c18.cpu c LEFT JOIN c18.mem m ON m.k = c.k + 1 WHERE %W ORDER BY c.id"},
	{Name: "union-all", Multi: true, Pred: "mem", Ordered: true, IDFirst: true,
		SQL: "SELECT id FROM c18.cpu WHERE host = 'a' UNION ALL SELECT id FROM c18.mem WHERE %W ORDER BY id"},
	{Name: "cte", Multi: true, Pred: "mem", Ordered: true, IDFirst: true,
		SQL: "WITH r AS (SELECT host FROM c18.mem WHERE %W) SELECT c.id FROM c18.cpu c WHERE c.host IN (SELECT host FROM r) ORDER BY c.id"},
}

func tmplIndex(name string) int {
	for i := range templates {
		if templates[i].Name == name {
			return i
		}
	}
	panic(name)
}

func measIndex(name string) int {
	for i := range measurements {
		if measurements[i].Name == name {
			return i
		}
	}
	panic(name)
}

type qcase struct {
	T, M int
	E    *expr
}

func (c qcase) sqlText() (string, string) {
	t := &templates[c.T]
	s := strings.ReplaceAll(t.SQL, "%M", measurements[c.M].Name)
	s = strings.ReplaceAll(s, "%W", c.E.render(t.Prefix, false, true))
	h := ""
	if t.Header {
		h = dbName
	}
	return s, h
}

func (c qcase) key() string {
	t := &templates[c.T]
	m := measurements[c.M].Name
	if t.Multi {
		m = "-"
	}
	return t.Name + "|" + m + "|" + c.E.render(t.Prefix, true, true)
}

// ---- execution -----------------------------------------------------------------------------------

type worker struct {
	id       int
	db       *database.DuckDB
	hP, hU   *api.QueryHandler
	appP     *fiber.App
	appU     *fiber.App
	executed int64
}

func newWorker(id int, root string) *worker {
	w := &worker{id: id}
	lg := zerolog.Nop()
	be, err := storage.NewLocalBackend(root, lg)
	must(err, "NewLocalBackend")
	tmp := filepath.Join(scratch, fmt.Sprintf("w%02d", id))
	must(os.MkdirAll(tmp, 0o755), "mkdir")
	db, err := database.New(&database.Config{MaxConnections: 2, MemoryLimit: "512MB", ThreadCount: 1,
		TempDirectory: filepath.Join(tmp, "spill"), LocalStorageRoot: be.GetBasePath()}, lg)
	must(err, "database.New")
	w.db = db
	w.hP = api.NewQueryHandler(db, be, lg, 0, 0)
	w.hU = api.NewQueryHandler(db, be, lg, 0, 0)
	if !w.hP.VerifPruner().VerifEnabled() {
		ev.Unbound("the production handler's pruner is not enabled by default")
	}
	w.hU.VerifPruner().VerifSetEnabled(false)
	w.appP = fiber.New(fiber.Config{DisableStartupMessage: true})
	w.appU = fiber.New(fiber.Config{DisableStartupMessage: true})
	w.hP.RegisterRoutes(w.appP)
	w.hU.RegisterRoutes(w.appU)
	return w
}

type response struct {
	Status  int
	Success bool
	Columns []string
	Rows    []string
	Count   int64
	Err     string
}

func (w *worker) post(app *fiber.App, sqlText, header string) response {
	body, _ := json.Marshal(map[string]string{"sql": sqlText})
	req := httptest.NewRequest("POST", "/api/v1/query", bytes.NewReader(body))
	req.Header.Set("Content-Type", "application/json")
	if header != "" {
		req.Header.Set("x-arc-database", header)
	}
	resp, err := app.Test(req, -1)
	if err != nil {
		return response{Status: -1, Err: err.Error()}
	}
	b, _ := io.ReadAll(resp.Body)
	resp.Body.Close()
	atomic.AddInt64(&w.executed, 1)
	var raw struct {
		Success  bool              `json:"success"`
		Columns  []string          `json:"columns"`
		Data     []json.RawMessage `json:"data"`
		RowCount int64             `json:"row_count"`
		Error    string            `json:"error"`
	}
	r := response{Status: resp.StatusCode}
	if err := json.Unmarshal(b, &raw); err != nil {
		r.Err = "undecodable body: " + err.Error()
		r.Status = -2
		return r
	}
	r.Success, r.Columns, r.Count, r.Err = raw.Success, raw.Columns, raw.RowCount, raw.Error
	for _, d := range raw.Data {
		var buf bytes.Buffer
		json.Compact(&buf, d)
		r.Rows = append(r.Rows, buf.String())
	}
	return r
}

type outcome struct {
	NonTrivial  bool     // the pruner changed the SQL that reaches DuckDB
	PathSet     string   // canonical pruned path set (for distinct counting)
	Kind        string   // "" = equal
	Lost        []string // sorted distinct tags of rows only the unpruned run returned
	Extra       []string // sorted distinct tags of rows only the pruned run returned
	LostRows    []string
	ExtraRows   []string
	StatusP     int
	StatusU     int
	NRowsU      int
	GT          int    // window grid, plain template: 1 = the unpruned run returned exactly the rows the fixture puts in the window, 2 = it did not
	GTDetail    string // GT == 2: expected vs returned ids
	LastDayFile bool   // window grid: the last calendar day holding a selected row is stored as a day-level file
}

var pathRe = regexp.MustCompile(`'([^']*\.parquet)'`)

func pathSet(sqlText string) string {
	var p []string
	for _, m := range pathRe.FindAllStringSubmatch(sqlText, -1) {
		p = append(p, m[1])
	}
	sort.Strings(p)
	return strings.Join(p, ",")
}

func rowTags(rows []string, idFirst bool, fallback string) []string {
	set := map[string]bool{}
	for _, r := range rows {
		tag := fallback
		if idFirst {
			var cells []json.RawMessage
			if json.Unmarshal([]byte(r), &cells) == nil && len(cells) > 0 {
				var id int64
				if json.Unmarshal(cells[0], &id) == nil {
					if t, ok := tagOfID[id]; ok {
						tag = t
					}
				}
			}
		}
		set[tag] = true
	}
	var out []string
	for t := range set {
		out = append(out, t)
	}
	sort.Strings(out)
	return out
}

// rowIDs: first cell of every row as an integer (templates with IDFirst), in result order.
func rowIDs(rows []string) []int64 {
	var out []int64
	for _, r := range rows {
		var cells []json.RawMessage
		var id int64 = -1
		if json.Unmarshal([]byte(r), &cells) == nil && len(cells) > 0 {
			json.Unmarshal(cells[0], &id)
		}
		out = append(out, id)
	}
	return out
}

func diffMultiset(a, b []string) (onlyA, onlyB []string) {
	cnt := map[string]int{}
	for _, x := range a {
		cnt[x]++
	}
	for _, x := range b {
		if cnt[x] > 0 {
			cnt[x]--
		} else {
			onlyB = append(onlyB, x)
		}
	}
	for _, x := range a {
		if cnt[x] > 0 {
			cnt[x]--
			onlyA = append(onlyA, x)
		}
	}
	sort.Strings(onlyA)
	sort.Strings(onlyB)
	return
}

var memo sync.Map // qcase.key() -> *outcome

func (w *worker) eval(c qcase) *outcome {
	k := c.key()
	if v, ok := memo.Load(k); ok {
		return v.(*outcome)
	}
	o := w.evalRaw(c)
	memo.Store(k, o)
	return o
}

func (w *worker) evalRaw(c qcase) *outcome {
	t := &templates[c.T]
	sqlText, header := c.sqlText()
	ctx := context.Background()
	sp := w.hP.VerifTransformedSQL(ctx, sqlText, header)
	su := w.hU.VerifTransformedSQL(ctx, sqlText, header)
	o := &outcome{}
	if sp == su {
		// The pruner did not change what DuckDB is asked: both handlers would execute byte-identical SQL
		// on the same static store. Counted as a trivial evaluation, not executed.
		return o
	}
	o.NonTrivial = true
	o.PathSet = pathSet(sp)
	ru := w.post(w.appU, sqlText, header)
	rp := w.post(w.appP, sqlText, header)
	o.StatusP, o.StatusU, o.NRowsU = rp.Status, ru.Status, len(ru.Rows)
	if ru.Status < 0 || rp.Status < 0 {
		cleanup()
		ev.Unbound("query transport failed: " + ru.Err + rp.Err)
	}
	if rp.Status != ru.Status || rp.Success != ru.Success {
		o.Kind = "status-differs"
		return o
	}
	if !ru.Success {
		if measurements[c.M].Grid != "" && gridWindowOf(c.E) != nil {
			o.GT, o.GTDetail = 2, "unpruned query failed: "+ru.Err
		}
		return o // both failed the same way
	}
	if gw := gridWindowOf(c.E); gw != nil && measurements[c.M].Grid != "" && c.T == 0 {
		want := gridExpected(measurements[c.M], gw)
		got := rowIDs(ru.Rows)
		o.GT = 1
		if fmt.Sprint(want) != fmt.Sprint(got) {
			o.GT, o.GTDetail = 2, fmt.Sprintf("%s: fixture puts ids %v in the window, unpruned run returned %v", c.key(), want, got)
		}
		if len(want) > 0 {
			last := gridRows[int(want[len(want)-1])-measurements[c.M].IDBase].T
			di := int(last.Sub(gridDay(0)) / (24 * time.Hour))
			o.LastDayFile = measurements[c.M].Grid[di] != 'H'
		}
	}
	lost, extra := diffMultiset(ru.Rows, rp.Rows)
	o.LostRows, o.ExtraRows = lost, extra
	switch {
	case len(lost) > 0 && len(extra) == 0:
		o.Kind = "rows-missing"
	case len(lost) == 0 && len(extra) > 0:
		o.Kind = "rows-extra"
	case len(lost) > 0:
		o.Kind = "rows-differ"
	case strings.Join(ru.Columns, ",") != strings.Join(rp.Columns, ","):
		o.Kind = "columns-differ"
	case ru.Count != rp.Count || int(ru.Count) != len(ru.Rows) || int(rp.Count) != len(rp.Rows):
		o.Kind = "row-count-differs"
	case t.Ordered && strings.Join(ru.Rows, "\n") != strings.Join(rp.Rows, "\n"):
		o.Kind = "order-differs"
	}
	o.Lost = rowTags(lost, t.IDFirst, "row")
	o.Extra = rowTags(extra, t.IDFirst, "row")
	return o
}

// ---- minimisation --------------------------------------------------------------------------------
//
// A raw difference is reduced in two phases.
//
// Phase A (any difference counts): simplest template that still differs (plain on the measurement the
// predicate refers to, then the earlier two-measurement templates), first layout that still differs,
// then the boolean structure: any node is replaced by any of its proper descendants while the query
// still differs. The result is structurally 1-minimal: no sub-expression differs on its own.
//
// Phase B (canonical atoms):
//   - a single atom on `time` is minimised once per WITNESS (tag of a lost row): it is replaced by the
//     first atom of the canonical order with the same direction (lower bound / upper bound / BETWEEN / =)
//     that still loses a row with that tag. Directions and witnesses are never crossed, so "end-only",
//     "start-only" and "inclusive end on a partition boundary" stay separate classes.
//   - every other minimal form (compound expressions, atoms on other columns, two-measurement templates)
//     gets each atom replaced by the first atom of the canonical order on the same column class
//     (time | other column ending in "time" | ordinary column) that keeps the query differing AND keeps it
//     structurally minimal (so the class stays "this connective / this column", it cannot slide into a
//     single-atom class).
//
// Signature = <oracle-kind>|tmpl=<template>|<minimal WHERE, literals symbolic, AND/OR operands sorted>
// [|lost=<witness>]|layout=<layout>.

func differs(o *outcome) bool { return o.Kind != "" }

func loses(o *outcome, witness string) bool {
	if o.Kind == "" {
		return false
	}
	for _, t := range o.Lost {
		if t == witness {
			return true
		}
	}
	return false
}

func replaceAt(e *expr, idx *int, target int, with *expr) *expr {
	me := *idx
	*idx++
	if me == target {
		*idx += e.size() - 1
		return with
	}
	switch e.Kind {
	case 'a':
		return e
	case '!':
		return &expr{Kind: '!', X: replaceAt(e.X, idx, target, with)}
	}
	x := replaceAt(e.X, idx, target, with)
	y := replaceAt(e.Y, idx, target, with)
	return &expr{Kind: e.Kind, X: x, Y: y}
}

func preorder(e *expr, out *[]*expr) {
	*out = append(*out, e)
	switch e.Kind {
	case 'a':
	case '!':
		preorder(e.X, out)
	default:
		preorder(e.X, out)
		preorder(e.Y, out)
	}
}

// reductions: every expression obtained by replacing one node with one of its proper descendants,
// smallest result first (stable).
func reductions(e *expr) []*expr {
	var nodes []*expr
	preorder(e, &nodes)
	var out []*expr
	for pos, n := range nodes {
		var desc []*expr
		preorder(n, &desc)
		for _, d := range desc[1:] {
			i := 0
			out = append(out, replaceAt(e, &i, pos, d))
		}
	}
	sort.SliceStable(out, func(i, j int) bool { return out[i].size() < out[j].size() })
	return out
}

var canonAtoms []*atom // full depth-0 alphabet in canonical order

func colClass(c string) string {
	switch {
	case c == "time":
		return "time"
	case strings.HasSuffix(c, "time"):
		return "*time"
	}
	return "other"
}

func direction(op string) string {
	switch op {
	case ">=", ">":
		return "lower"
	case "<", "<=":
		return "upper"
	}
	return op
}

func atomEq(a, b *atom) bool {
	return a.Col == b.Col && a.Op == b.Op && a.L1.Sym == b.L1.Sym && a.L2.Sym == b.L2.Sym
}

// keeper: what a reduction step has to preserve. With a witness tag the candidate must still lose (or add)
// a row carrying that tag; untagged differences (aggregates, status) only have to stay a difference.
type keeper func(o *outcome) bool

func keepFor(witness string) keeper {
	if witness == "" || witness == "row" {
		return differs
	}
	return func(o *outcome) bool {
		if loses(o, witness) {
			return true
		}
		for _, t := range o.Extra {
			if t == witness {
				return true
			}
		}
		return false
	}
}

func (w *worker) structurallyMinimal(c qcase, keep keeper) bool {
	for _, r := range reductions(c.E) {
		if keep(w.eval(qcase{c.T, c.M, r})) {
			return false
		}
	}
	return true
}

// phaseA returns the structurally minimal case for one witness.
func (w *worker) phaseA(c qcase, keep keeper) qcase {
	cur := c
	// templates in canonical order: plain first, then the earlier two-measurement templates
	if cur.T != 0 {
		t := &templates[cur.T]
		for ti := 0; ti < cur.T; ti++ {
			ct := &templates[ti]
			if ti != 0 && !(t.Multi && ct.Multi) {
				continue // single-table templates only fall back to plain
			}
			m := cur.M
			if t.Multi && !ct.Multi {
				m = measIndex(t.Pred)
			}
			if ct.Multi {
				m = measIndex(ct.Pred)
			}
			cand := qcase{ti, m, cur.E}
			if keep(w.eval(cand)) {
				cur = cand
				break
			}
		}
	}
	if !templates[cur.T].Multi {
		for m := 0; m < cur.M; m++ {
			cand := qcase{cur.T, m, cur.E}
			if keep(w.eval(cand)) {
				cur = cand
				break
			}
		}
	}
	for again := true; again; {
		again = false
		for _, r := range reductions(cur.E) {
			cand := qcase{cur.T, cur.M, r}
			if keep(w.eval(cand)) {
				cur = cand
				again = true
				break
			}
		}
	}
	return cur
}

// phaseB: a structurally minimal single atom on `time` (plain template) is replaced by the first atom of the
// canonical order with the same direction that still loses the witness, on the first layout that does.
func (w *worker) phaseB(c qcase, witness string) qcase {
	keep := keepFor(witness)
	cur := c
	for _, ca := range canonAtoms {
		if ca.Col != "time" || direction(ca.Op) != direction(c.E.A.Op) {
			continue
		}
		if atomEq(ca, cur.E.A) {
			break
		}
		cand := qcase{c.T, c.M, &expr{Kind: 'a', A: ca}}
		if keep(w.eval(cand)) {
			cur = cand
			break
		}
	}
	for m := 0; m < cur.M; m++ {
		cand := qcase{cur.T, m, cur.E}
		if keep(w.eval(cand)) {
			cur = cand
			break
		}
	}
	return cur
}

// phaseBGrid: a failing window of the grid (plain template) is replaced by the first window form of the
// canonical order (comparison form, then fewest midnights / shortest / earliest window) that still loses a
// row of the same witness (grid day) on the first layout of the canonical layout order that does. The many
// raw (window, form, layout) failures of one defect collapse into one class per lost day.
func (w *worker) phaseBGrid(c qcase, witness string) qcase {
	keep := keepFor(witness)
	self := c.key()
	for _, e := range gridCanon {
		for m := gridFirst; m < len(measurements); m++ {
			cand := qcase{c.T, m, e}
			if cand.key() == self {
				return c
			}
			if keep(w.eval(cand)) {
				return cand
			}
		}
	}
	return c
}

func isGridWindowCase(c qcase) bool {
	return c.T == 0 && measurements[c.M].Grid != "" && gridWindowOf(c.E) != nil
}

// whereClass abstracts a structurally minimal WHERE expression to the feature that makes it a class:
//   - two-measurement template (the same WHERE is fine on the plain template): the predicate of one table
//     is applied to the other one                                  -> "time-predicate-of-other-table"
//   - NOT above an atom on a column whose name ends in "time"      -> "NOT"
//   - otherwise an OR                                               -> "OR"
//   - otherwise an atom on a column other than `time` whose name ends in "time" -> "column-name-ends-in-time"
//   - a single atom on `time`: the canonical atom itself + the witness tag (see phaseB)
//   - anything else (AND-only combinations on `time`): the expression itself, symbolic literals.
func hasNotOverTime(e *expr, under bool) bool {
	switch e.Kind {
	case 'a':
		return under && strings.HasSuffix(e.A.Col, "time")
	case '!':
		return hasNotOverTime(e.X, true)
	}
	return hasNotOverTime(e.X, under) || hasNotOverTime(e.Y, under)
}

func hasKind(e *expr, k byte) bool {
	switch e.Kind {
	case 'a':
		return false
	case '!':
		return k == '!' || hasKind(e.X, k)
	}
	return e.Kind == k || hasKind(e.X, k) || hasKind(e.Y, k)
}

func hasSuffixCol(e *expr) bool {
	switch e.Kind {
	case 'a':
		return colClass(e.A.Col) == "*time"
	case '!':
		return hasSuffixCol(e.X)
	}
	return hasSuffixCol(e.X) || hasSuffixCol(e.Y)
}

func whereClass(c qcase) (class string, singleTime bool) {
	t := &templates[c.T]
	switch {
	case t.Multi:
		return "time-predicate-of-other-table", false
	case hasNotOverTime(c.E, false):
		return "NOT", false
	case hasKind(c.E, '|'):
		return "OR", false
	case hasSuffixCol(c.E):
		return "column-name-ends-in-time", false
	case c.E.Kind == 'a' && c.E.A.Col == "time" && c.T == 0:
		return "", true
	}
	return sigExpr(c.E, t.Prefix, true), false
}

// sigExpr renders with symbolic literals and sorted AND/OR operands (the class does not depend on the
// operand order; the replay keeps the real order).
func sigExpr(e *expr, prefix string, top bool) string {
	switch e.Kind {
	case 'a':
		return e.A.render(prefix, true)
	case '!':
		return "NOT " + sigExpr(e.X, prefix, false)
	}
	op := " AND "
	if e.Kind == '|' {
		op = " OR "
	}
	a, b := sigExpr(e.X, prefix, false), sigExpr(e.Y, prefix, false)
	if b < a {
		a, b = b, a
	}
	if top {
		return a + op + b
	}
	return "(" + a + op + b + ")"
}

func signature(c qcase, o *outcome, class, witness string) string {
	t := &templates[c.T]
	layout := measurements[c.M].Layout
	if t.Multi {
		layout = "cpu:hour-dirs+mem:day-files"
	}
	s := o.Kind + "|tmpl=" + t.Name + "|where=" + class
	if witness != "" {
		s += "|lost=" + witness
	}
	return s + "|layout=" + layout
}

// ---- main ----------------------------------------------------------------------------------------

func main() {
	run := ev.Start("C18", "exploration")
	full := !run.Quick()
	scratch = fmt.Sprintf("/dev/shm/verif.c18.%d", os.Getpid())
	os.RemoveAll(scratch)
	must(os.MkdirAll(scratch, 0o755), "scratch")
	defer cleanup()

	buildAnchors()
	buildRelLits()
	buildGrid(full)
	buildGridExprs(full)
	root := filepath.Join(scratch, "store")
	must(os.MkdirAll(root, 0o755), "store")
	listing := buildStore(root)
	canonAtoms = alphabet0(true)

	nw := runtime.NumCPU()
	if nw > 16 {
		nw = 16
	}
	workers := make([]*worker, nw)
	var wg sync.WaitGroup
	for i := range workers {
		wg.Add(1)
		go func(i int) { defer wg.Done(); workers[i] = newWorker(i, root) }(i)
	}
	wg.Wait()

	// vacuity guard: the unpruned handler sees every fixture row of every measurement
	for _, m := range measurements {
		r := workers[0].post(workers[0].appU, "SELECT count(*) AS n FROM c18."+m.Name, "")
		if !r.Success || len(r.Rows) != 1 || r.Rows[0] != fmt.Sprintf("[%d]", len(rowsOf(m))) {
			cleanup()
			ev.Unbound(fmt.Sprintf("fixture of %s not fully visible: %+v", m.Name, r))
		}
	}

	// ---- remote-storage histories (remote.go). They go first: the part is small and bounded, so the internal
	// deadline, if it is ever reached on an overloaded machine, cuts the large differential enumeration below
	// (which then reports exhaustive=false) rather than skipping this part altogether.
	dbs := make([]*database.DuckDB, len(workers))
	for i, w := range workers {
		dbs[i] = w.db
	}
	remoteExhaustive := remoteHistories(run, full, dbs)

	// ---- the enumerated space
	e0 := atomsToExprs(alphabet0(full))
	a1 := atomsToExprs(alphabet1(full))
	e1new := deepen(a1)
	a2 := atomsToExprs(alphabet2(full))
	e2l1 := append(append([]*expr{}, a2...), deepen(a2)...)
	e2new := deepen(e2l1)

	var cases []qcase
	// add: single-table templates are crossed with the given layouts; two-measurement templates ignore them
	add := func(ti int, es []*expr, layouts []int) {
		t := &templates[ti]
		if t.Multi {
			for _, e := range es {
				cases = append(cases, qcase{ti, measIndex(t.Pred), e})
			}
			return
		}
		for _, m := range layouts {
			for _, e := range es {
				cases = append(cases, qcase{ti, m, e})
			}
		}
	}
	allLayouts := []int{0, 1, 2}
	for ti := range templates {
		add(ti, e0, allLayouts) // depth 0: full atom alphabet, every template, every layout
		switch {
		case full || ti == 0:
			add(ti, e1new, allLayouts) // depth 1 over alphabet1
		default:
			add(ti, e1new, []int{0}) // quick: the other single-table templates on the hour-dir layout only
		}
	}
	if full {
		add(tmplIndex("plain"), e2new, allLayouts) // depth 2 over alphabet2
		add(tmplIndex("join"), e2new, nil)
	} else {
		add(tmplIndex("plain"), e2new, []int{0})
	}
	// window grid: every window form x every grid layout on the plain template; thorough also through the
	// unordered, aggregate and header-database templates
	nBase := len(cases)
	gridTemplates := []int{tmplIndex("plain")}
	if full {
		gridTemplates = append(gridTemplates, tmplIndex("no-order"), tmplIndex("aggregate"), tmplIndex("header-db"))
	}
	var gridLayouts []int
	for m := gridFirst; m < len(measurements); m++ {
		gridLayouts = append(gridLayouts, m)
	}
	for i, ti := range gridTemplates {
		if i == 0 {
			add(ti, gridCanon, gridLayouts)
			continue
		}
		var hc []int // the other templates: layouts without the M state
		for _, m := range gridLayouts {
			if !strings.Contains(measurements[m].Grid, "M") {
				hc = append(hc, m)
			}
		}
		add(ti, gridCanon, hc)
	}
	nGrid := len(cases) - nBase
	seenKey := map[string]bool{}
	uniq := cases[:0]
	for _, c := range cases {
		k := c.key()
		if !seenKey[k] {
			seenKey[k] = true
			uniq = append(uniq, c)
		}
	}
	cases = uniq
	if os.Getenv("VERIF_C18_PART") == "remote" { // development aid: only the remote histories (evidence is marked partial)
		cases = cases[:1]
		run.Coverage["partial_dev_run"] = "VERIF_C18_PART=remote: the differential part was skipped"
		exhaustiveDev = true
	}

	// ---- phase 1: evaluate every case
	type failure struct {
		c qcase
		o *outcome
	}
	var (
		fmu                                        sync.Mutex
		failures                                   []failure
		next                                       int64 = -1
		evaluated                                  int64
		nontrivial                                 int64
		withTime                                   int64
		stopped                                    int32
		gtOK, gtBad, gridNonEmpty, gridLastDayFile int64
		gtFirstBad                                 atomic.Value
	)
	pathSets := sync.Map{}
	samples := ev.NewSamples(6)
	for _, w := range workers {
		wg.Add(1)
		go func(w *worker) {
			defer wg.Done()
			for {
				i := atomic.AddInt64(&next, 1)
				if int(i) >= len(cases) {
					return
				}
				if i%64 == 0 && run.TimeUp() {
					atomic.StoreInt32(&stopped, 1)
					return
				}
				c := cases[i]
				o := w.eval(c)
				atomic.AddInt64(&evaluated, 1)
				if c.E.hasTimePredicate() {
					atomic.AddInt64(&withTime, 1)
				}
				if o.NonTrivial {
					atomic.AddInt64(&nontrivial, 1)
					pathSets.Store(o.PathSet, true)
					if i%997 == 0 || o.Kind != "" && i%101 == 0 {
						s, _ := c.sqlText()
						samples.Add(map[string]any{"sql": s, "outcome": o.Kind, "rows_unpruned": o.NRowsU, "lost": o.Lost})
					}
				}
				switch o.GT {
				case 1:
					atomic.AddInt64(&gtOK, 1)
					if o.NRowsU > 0 {
						atomic.AddInt64(&gridNonEmpty, 1)
					}
					if o.LastDayFile {
						atomic.AddInt64(&gridLastDayFile, 1)
					}
				case 2:
					if atomic.AddInt64(&gtBad, 1) == 1 {
						gtFirstBad.Store(o.GTDetail)
					}
				}
				if o.Kind != "" {
					fmu.Lock()
					failures = append(failures, failure{c, o})
					fmu.Unlock()
				}
			}
		}(w)
	}
	wg.Wait()
	exhaustive := stopped == 0 && !exhaustiveDev
	if gtBad > 0 {
		// the reference run itself does not select the rows the fixture puts in a window: the grid would be
		// comparing something else than intended (literal interpretation, session time zone)
		cleanup()
		ev.Unbound(fmt.Sprintf("window grid: %d unpruned results differ from the fixture's ground truth, first: %v", gtBad, gtFirstBad.Load()))
	}

	// ---- phase 2: minimise every raw difference once per witness tag, collapse into class signatures
	sort.Slice(failures, func(i, j int) bool { return failures[i].c.key() < failures[j].c.key() })
	type job struct {
		c       qcase
		witness string
	}
	var jobs []job
	for _, f := range failures {
		seen := map[string]bool{}
		ws := append(append([]string{}, f.o.Lost...), f.o.Extra...)
		if len(ws) == 0 {
			ws = []string{""}
		}
		for _, wt := range ws {
			if !seen[wt] {
				seen[wt] = true
				jobs = append(jobs, job{f.c, wt})
			}
		}
	}
	next = -1
	var minimised int64
	var amu sync.Mutex
	minimalSeen := map[string]bool{}
	var minimal []job
	for _, w := range workers {
		wg.Add(1)
		go func(w *worker) {
			defer wg.Done()
			for {
				i := atomic.AddInt64(&next, 1)
				if int(i) >= len(jobs) {
					return
				}
				mc := w.phaseA(jobs[i].c, keepFor(jobs[i].witness))
				atomic.AddInt64(&minimised, 1)
				k := mc.key() + "#" + jobs[i].witness
				amu.Lock()
				if !minimalSeen[k] {
					minimalSeen[k] = true
					minimal = append(minimal, job{mc, jobs[i].witness})
				}
				amu.Unlock()
			}
		}(w)
	}
	wg.Wait()
	// smallest minimal form first: it becomes the replay / example of its class (ev keeps the first per signature)
	sort.Slice(minimal, func(i, j int) bool {
		if a, b := minimal[i].c.E.size(), minimal[j].c.E.size(); a != b {
			return a < b
		}
		if a, b := hasSuffixCol(minimal[i].c.E), hasSuffixCol(minimal[j].c.E); a != b {
			return !a // examples on `time` itself first
		}
		if a, b := minimal[i].c.key(), minimal[j].c.key(); a != b {
			return a < b
		}
		return minimal[i].witness < minimal[j].witness
	})
	w0 := workers[0]
	// a single time atom reached from an untagged difference (aggregate, group-by, left-join rows) takes its
	// witnesses from the plain template's own lost rows
	var expanded []job
	for _, mj := range minimal {
		if _, single := whereClass(mj.c); (single || isGridWindowCase(mj.c)) && (mj.witness == "" || mj.witness == "row") {
			if o := w0.eval(mj.c); len(o.Lost) > 0 {
				for _, t := range o.Lost {
					expanded = append(expanded, job{mj.c, t})
				}
				continue
			}
		}
		expanded = append(expanded, mj)
	}
	for _, mj := range expanded {
		cc := mj.c
		class, single := whereClass(cc)
		wt := ""
		if isGridWindowCase(cc) {
			if mj.witness != "" && mj.witness != "row" {
				cc = w0.phaseBGrid(cc, mj.witness)
				wt = mj.witness
			}
			class = sigExpr(cc.E, "", true)
		} else if single && mj.witness != "" && mj.witness != "row" {
			cc = w0.phaseB(cc, mj.witness)
			wt = mj.witness
			class = sigExpr(cc.E, "", true)
		} else if single {
			class = sigExpr(cc.E, "", true)
		}
		// every reported class is re-executed twice, uncached: same observation or HARNESS-NONDETERMINISM
		o1, o2 := w0.evalRaw(cc), w0.evalRaw(cc)
		if o1.Kind == "" || o1.Kind != o2.Kind || strings.Join(o1.LostRows, "\n") != strings.Join(o2.LostRows, "\n") ||
			strings.Join(o1.ExtraRows, "\n") != strings.Join(o2.ExtraRows, "\n") {
			cleanup()
			ev.Nondeterminism("class does not reproduce identically: " + cc.key())
		}
		sig := signature(cc, o1, class, wt)
		sqlText, header := cc.sqlText()
		dirs := listing
		if g := measurements[cc.M]; g.Grid != "" {
			dirs = nil
			for _, d := range gridListing[g.Name] {
				dirs = append(dirs, dbName+"/"+g.Name+"/"+d)
			}
		}
		lim := func(r []string) []string {
			if len(r) > 12 {
				return r[:12]
			}
			return r
		}
		run.Violate(sig,
			fmt.Sprintf("pruned and unpruned execution differ (%s) for WHERE %s: unpruned returns %d rows; only unpruned: %v; only pruned: %v",
				o1.Kind, cc.E.render(templates[cc.T].Prefix, true, true), o1.NRowsU, o1.Lost, o1.Extra),
			map[string]any{"sql": sqlText, "x-arc-database": header, "now_utc": runNow.Format(time.RFC3339), "store_dirs": dirs,
				"where_symbolic":     cc.E.render(templates[cc.T].Prefix, true, true),
				"pruned_sql":         w0.hP.VerifTransformedSQL(context.Background(), sqlText, header),
				"rows_only_unpruned": lim(o1.LostRows), "rows_only_pruned": lim(o1.ExtraRows),
				"how": "POST /api/v1/query on a handler with PartitionPruner.enabled=true vs =false, same store"})
	}
	// how many raw differences each class absorbed is not tracked per class (phase A merges them);
	// the totals are in the coverage block.

	var executed int64
	for _, w := range workers {
		executed += atomic.LoadInt64(&w.executed)
	}
	nPath := 0
	pathSets.Range(func(_, _ any) bool { nPath++; return true })

	run.Coverage["evaluations"] = int(evaluated)
	run.Coverage["evaluations_with_time_predicate"] = int(withTime)
	run.Coverage["pruning_applied"] = int(nontrivial)
	run.Coverage["distinct_nontrivial"] = nPath
	run.Coverage["handler_requests"] = int(executed)
	run.Coverage["raw_differences"] = len(failures)
	run.Coverage["minimisations"] = int(minimised)
	run.Coverage["structurally_minimal_forms"] = len(minimal)
	run.Coverage["exhaustive"] = exhaustive
	run.Coverage["cases_enumerated"] = len(cases)
	run.Coverage["templates"] = len(templates)
	gridLayoutNames := []string{}
	for _, m := range measurements[gridFirst:] {
		gridLayoutNames = append(gridLayoutNames, m.Grid)
	}
	todNames := []string{}
	tods := gridToD
	if full {
		tods = append(append([]time.Duration{}, gridToD...), gridToDThorough...)
	}
	for _, d := range tods {
		todNames = append(todNames, fmt.Sprintf("%02d:%02d", int(d.Hours()), int(d.Minutes())%60))
	}
	formNames := []string{}
	for _, f := range gridForms(full) {
		formNames = append(formNames, f.Name)
	}
	tmplNames := []string{}
	for _, ti := range gridTemplates {
		tmplNames = append(tmplNames, templates[ti].Name)
	}
	byMidnights := map[string]int{}
	todRel := map[string]int{}
	for _, gw := range gridWindows() {
		byMidnights[fmt.Sprint(gw.Midnights)]++
		if gw.S.Format("2006-01-02") != gw.E.Format("2006-01-02") {
			sd, ed := gw.S.Sub(gw.S.Truncate(24*time.Hour)), gw.E.Sub(gw.E.Truncate(24*time.Hour))
			switch {
			case ed < sd:
				todRel["end_tod_before_start_tod"]++
			case ed == sd:
				todRel["end_tod_equals_start_tod"]++
			default:
				todRel["end_tod_after_start_tod"]++
			}
		}
	}
	run.Coverage["window_grid"] = map[string]any{
		"days": append(append([]string{}, gridDays...), gridEndDay+" (00:00 as an end only)"), "times_of_day": todNames,
		"instants": len(gridInstants), "windows": len(gridWindows()), "windows_by_midnights_inside": byMidnights,
		"windows_ending_on_a_later_day": todRel, "forms": formNames, "templates": tmplNames,
		"day_states": "H hour directories, C day-level compacted file, M day-level file + hour directory " + gridLeftoverHour + " (thorough)",
		"layouts":    gridLayoutNames, "rows_per_measurement": len(gridRows), "where_expressions": len(gridCanon), "cases": nGrid,
		"unpruned_result_equals_fixture_ground_truth": int(gtOK), "cases_selecting_rows": int(gridNonEmpty),
		"cases_whose_last_selected_day_is_a_day_file": int(gridLastDayFile),
		"partition_dirs_example":                      map[string][]string{measurements[gridFirst+2].Name: gridListing[measurements[gridFirst+2].Name]},
	}
	run.Coverage["layouts"] = []string{"cpu: hour directories", "mem: compacted day files", "disk: day files + one un-compacted hour directory + hour directories for now-relative days"}
	run.Coverage["store_dirs"] = listing
	run.Coverage["alphabet_sizes"] = map[string]int{"depth0_atoms": len(e0), "depth1_atoms": len(a1), "depth1_new_exprs": len(e1new), "depth2_atoms": len(a2), "depth2_new_exprs": len(e2new)}
	run.Coverage["rule"] = "cases = templates x layouts x WHERE expressions; WHERE = every atom of the depth-0 alphabet (5 comparison ops x literals {date-only, second precision, Z, +02:00, run-relative, NOW()/CURRENT_TIMESTAMP +- INTERVAL} on time, BETWEEN pairs, the same on string columns uptime/event_time, host/v atoms), plus NOT x / (x AND y) / (x OR y) closed once over alphabet1 for every template and twice (depth 2, parenthesised) over alphabet2 for the plain template (thorough: all three layouts, and the join template); plus the window grid: every ordered pair of the instants {3 consecutive days x times of day 00:00, 03:30, 22:00 (thorough: + 12:00)} + {day 4 00:00} as a window (inside a day, over 1-3 midnights, end time-of-day before/equal/after the start's, bounds exactly at 00:00) x comparison forms (>= <, > <=, BETWEEN, +02:00 and -05:00 offset literals; thorough 3 more) x every assignment of {hour directories, day-level compacted file (thorough: + day file with a left-over hour directory)} to the three days, plain template (thorough: + no-order, aggregate, header-db on the layouts without a left-over hour directory); for the grid the unpruned result is also compared with the fixture's ground truth. A case is non-trivial when the enabled pruner changes the SQL sent to DuckDB (only those are executed through both HTTP handlers; byte-identical SQL on a static store is equal by construction); distinct_nontrivial = distinct pruned path sets. These counts are the differential (local store) part only; the remote-storage histories (s3:// / azure:// existence filter and its caches, judged on the pruned path list) have their own rule and counts under remote_histories."
	run.Coverage["samples"] = append(samples.List(), remoteSamples...)
	if !remoteExhaustive {
		exhaustive = false
		run.Coverage["exhaustive"] = false
	}
	run.Assume("differential part (rows): LocalBackend only. Remote (s3:// / azure://) existence filtering is judged on the path list of the handler's rewrite step over a fake List/ListDirectories backend (remote histories), not by executing DuckDB against a remote store; storage.GetStoragePath, bucket key prefixes and the SDK backends' own listing code are not exercised")
	run.Assume("remote histories: the passage of time is applied by ageing the cache entries through an accessor; real elapsed time (micro- to milliseconds per history) only makes entries older, i.e. answers fresher, and the oracle never demands staleness")
	run.Assume("remote histories: a partition that appeared less than glob TTL + partition TTL ago (and after the last InvalidateCaches) may be missing from a pruned list: bounded staleness of the two caches is taken as designed, not as a violation")
	run.Assume("session time zone UTC (DuckDB and Go); rows are >= 22 h away from every NOW()-relative boundary and from the pruner's implicit now+1d end")
	run.Assume("tiering disabled, RBAC disabled, JSON wire format (duckdb_arrow path); transform/partition caches are in their production configuration")
	run.Assume("queries whose transformed SQL is byte-identical with and without the pruner are counted but not executed")
	fmt.Printf("C18 cases=%d evaluated=%d pruning_applied=%d distinct_path_sets=%d handler_requests=%d raw_differences=%d exhaustive=%v\n",
		len(cases), evaluated, nontrivial, nPath, executed, len(failures), exhaustive)
	cleanup()
	run.Finish()
}
