package main

import (
	"fmt"
	"os"
	"time"

	"github.com/basekick-labs/arc/internal/database"
	"github.com/rs/zerolog"
)

func main() {
	d := "/dev/shm/c12probe"
	os.MkdirAll(d+"/a/b/c", 0o700)
	duck, err := database.New(&database.Config{MaxConnections: 2, MemoryLimit: "512MB", ThreadCount: 1, PreserveInsertionOrder: true, TempDirectory: d + "/spill", LocalStorageRoot: d}, zerolog.Nop())
	if err != nil {
		panic(err)
	}
	duck.DB().Exec("COPY (SELECT (range + 1000)::BIGINT AS id, (hash(range) % 1000000007)::BIGINT AS v FROM range(4400)) TO '" + d + "/a/b/c/x.parquet' (FORMAT PARQUET, COMPRESSION UNCOMPRESSED)")
	for _, q := range []string{"SELECT 42", "SELECT count(*) FROM read_parquet('" + d + "/a/**/*.parquet', union_by_name=true)",
		"SELECT count(*), count(*) FILTER (WHERE id BETWEEN 1000 AND 5399), count(DISTINCT id) FILTER (WHERE id BETWEEN 1000 AND 5399) FROM read_parquet('" + d + "/a/**/*.parquet', union_by_name=true)",
		"SELECT count(*), count(*) FILTER (WHERE id BETWEEN 1000 AND 5399), count(DISTINCT id) FILTER (WHERE id BETWEEN 1000 AND 5399) FROM read_parquet('" + d + "/a/**/*.parquet')",
		"SELECT count(*), count(id), count(DISTINCT id), min(id), max(id) FROM read_parquet('" + d + "/a/**/*.parquet', union_by_name=true)",
		"SELECT count(*) FROM (SELECT id, count(*) c FROM read_parquet('" + d + "/a/**/*.parquet', union_by_name=true) GROUP BY id HAVING c<>1)",
	} {
		for i := 0; i < 3; i++ {
			t := time.Now()
			var a, b, c, e, f any
			err := duck.DB().QueryRow(q).Scan(&a)
			if err != nil {
				err = duck.DB().QueryRow(q).Scan(&a, &b, &c)
			}
			if err != nil {
				err = duck.DB().QueryRow(q).Scan(&a, &b, &c, &e, &f)
			}
			fmt.Println(time.Since(t), err, q[:40])
		}
	}
	os.RemoveAll(d)
}
