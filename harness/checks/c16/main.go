// C16 — Query answers match DuckDB's semantics for the same SQL.
//
// Every query of a bounded grammar (see grammar.go: a union of four full products over templates, join kinds,
// table-reference spellings, gap styles between every pair of tokens, string literals, aliases, identifier and
// keyword case) is sent to the REAL POST /api/v1/query handler (internal/api/query.go, duckdb_arrow build: the
// production Arrow JSON path) through fiber's app.Test, on a real storage.LocalBackend under /dev/shm and a
// real database.DuckDB, once without and once with the x-arc-database header, and twice in a row (first
// execution = SQL transform cache cold, second = warm; the cache's own hit/miss counters are read to confirm
// the state).
//
// Oracle (never Arc's code): a PLAIN DuckDB connection in which every measurement is a view over exactly its
// stored Parquet files evaluates the same SQL text. Same columns, same rows (multiset; in order when the
// query orders completely), same row_count — or both fail.
package main

import (
	"bufio"
	"bytes"
	"encoding/json"
	"fmt"
	"hash/fnv"
	"os"
	"os/exec"
	"os/signal"
	"path/filepath"
	"sort"
	"strconv"
	"strings"
	"sync"
	"sync/atomic"
	"syscall"
	"time"

	"github.com/basekick-labs/arc/zzverif/engine/ev"
	_ "github.com/duckdb/duckdb-go/v2"
)

type failure struct {
	Q      *query `json:"q"`
	Kind   string `json:"kind"`
	Detail string `json:"detail"`
}

type summary struct {
	Counters map[string]int64 `json:"counters"`
	Hashes   []uint64         `json:"hashes"` // distinct oracle answers among non-trivial cases
	Samples  []any            `json:"samples"`
	Complete bool             `json:"complete"`
}

type pairFailure struct {
	P      *seqPair `json:"p"`
	Kind   string   `json:"kind"`
	Detail string   `json:"detail"`
}

type line struct {
	F *failure     `json:"f,omitempty"`
	P *pairFailure `json:"p,omitempty"`
	S *summary     `json:"s,omitempty"`
}

func cacheCounters(w *worker) (hits, misses int64) {
	st := w.handler.VerifTransformCacheStats()
	hits, _ = st["cache_hits"].(int64)
	misses, _ = st["cache_misses"].(int64)
	return
}

// judgeCounted = judge + which transform-cache state each of the two executions really ran in.
func (w *worker) judgeCounted(q *query, c map[string]int64) *verdict {
	sqlText := q.SQL()
	v := &verdict{}
	v.Oracle = w.askOracle(sqlText, q.Hdr)
	h0, m0 := cacheCounters(w)
	v.Cold = w.askArc(sqlText, q.Hdr)
	h1, m1 := cacheCounters(w)
	v.Warm = w.askArc(sqlText, q.Hdr)
	h2, _ := cacheCounters(w)
	switch {
	case m1-m0 == 1 && h2-h1 == 1:
		c["cache_cold_then_warm"]++
	case m1-m0 == 0 && h1-h0 == 0 && h2-h1 == 0:
		c["cache_not_consulted"]++ // rejected before the transform, no FROM/JOIN, or the uncached header fast path
	case h1-h0 > 0:
		c["cache_cold_state_not_reached"]++
	default:
		c["cache_warm_state_not_reached"]++
	}
	v.finish(q.Ordered)
	return v
}

func (v *verdict) finish(ordered bool) {
	kc, dc := compare(v.Oracle, v.Cold, ordered)
	kw, dw := compare(v.Oracle, v.Warm, ordered)
	switch {
	case kc == kw:
		v.Kind, v.Detail = kc, dc
	case kc == "":
		v.Kind, v.Detail = "warm-only:"+kw, "first execution agrees, second (cached transform) does not: "+dw
	case kw == "":
		v.Kind, v.Detail = "cold-only:"+kc, "second execution agrees, first (uncached transform) does not: "+dc
	default:
		v.Kind, v.Detail = "cold:"+kc+"/warm:"+kw, "first: "+dc+"; second: "+dw
	}
}

func answerHash(a *answer) uint64 {
	h := fnv.New64a()
	h.Write([]byte(strings.Join(a.Cols, "\x00")))
	rows := append([]string{}, a.Rows...)
	sort.Strings(rows)
	for _, r := range rows {
		h.Write([]byte{1})
		h.Write([]byte(r))
	}
	return h.Sum64()
}

func showSQL(s string) string {
	return strings.NewReplacer("\n", `\n`, "\t", `\t`, "\r", `\r`, "\f", `\f`).Replace(s)
}

// ---- child: judge the cases of one shard ----------------------------------------------------------

func childMain(run *ev.Run, spec, store, root string) {
	var k, n int
	var deadline int64
	fmt.Sscanf(spec, "%d/%d/%d", &k, &n, &deadline)
	w := newWorker(store, filepath.Join(root, fmt.Sprintf("w%02d", k)))
	var mine []*query
	// sharded by the SQL text
	enumerate(run.Quick(), func(q *query) {
		h := fnv.New32a()
		h.Write([]byte(q.SQL()))
		if int(h.Sum32()%uint32(n)) == k {
			mine = append(mine, q)
		}
	})
	out := bufio.NewWriterSize(os.Stdout, 1<<16)
	enc := json.NewEncoder(out)
	c := map[string]int64{}
	hashes := map[uint64]bool{}
	var samples []any
	complete := true
	start := 0
	if len(mine) > 0 && run.Seed != 0 {
		start = ((run.Seed % len(mine)) + len(mine)) % len(mine) // VERIF_SEED only permutes the order
	}
	// the sequence dimension first (it is the smaller part): ordered pairs, sharded by index
	var myPairs []*seqPair
	pi := -1
	enumeratePairs(run.Quick(), func(p *seqPair) {
		pi++
		if pi%n == k {
			myPairs = append(myPairs, p)
		}
	})
	oracleMemo := map[string]*answer{}
	ask := func(q *query) *answer {
		key := q.Hdr + "\x00" + q.SQL()
		a, ok := oracleMemo[key]
		if !ok {
			a = w.askOracle(q.SQL(), q.Hdr)
			oracleMemo[key] = a
		}
		return a
	}
	for j, p := range myPairs {
		if j%16 == 0 && time.Now().Unix() >= deadline {
			complete = false
			break
		}
		oA, oB := ask(p.A), ask(p.B)
		kind, detail, served := w.judgePair(p.A, p.B, oB)
		c["pairs"]++
		c["pairdev:"+p.LabB]++
		if oA.OK != oB.OK || answerHash(oA) != answerHash(oB) {
			c["pairs_answers_differ"]++
		}
		if served {
			c["pairs_b_served_from_cache"]++
		}
		switch {
		case kind == "":
		case strings.HasPrefix(kind, "?single:"):
			c["pairs_single_statement_defect"]++
		default:
			c["pairs_failing"]++
			enc.Encode(line{P: &pairFailure{P: p, Kind: kind, Detail: detail}})
		}
	}
	w.handler.InvalidateCaches()
	for j := range mine {
		if j%64 == 0 && time.Now().Unix() >= deadline {
			complete = false
			break
		}
		// every single-statement case starts from empty caches (the handler's own InvalidateCaches), so that its
		// first execution is cold whatever ran before; what one statement's cache entry does to ANOTHER statement
		// is the business of the sequence dimension above
		w.handler.InvalidateCaches()
		q := mine[(start+j)%len(mine)]
		wnr := c["cache_warm_state_not_reached"]
		v := w.judgeCounted(q, c)
		if c["cache_warm_state_not_reached"] != wnr && os.Getenv("VERIF_C16_DEBUG") != "" {
			fmt.Fprintf(os.Stderr, "warm-not-reached j=%d stats=%v sql=%s hdr=%s\n", j, w.handler.VerifTransformCacheStats(), showSQL(q.SQL()), q.Hdr)
		}
		c["evaluations"]++
		c["fam:"+q.Fam]++
		if q.Hdr != "" {
			c["with_header"]++
		}
		switch {
		case v.Oracle.OK && v.Cold.OK:
			c["both_answer"]++
		case !v.Oracle.OK && !v.Cold.OK:
			c["both_fail"]++
		}
		if v.Oracle.OK && len(v.Oracle.Rows) > 0 {
			c["nontrivial"]++
			hashes[answerHash(v.Oracle)] = true
		}
		if v.Kind != "" {
			c["failing"]++
			enc.Encode(line{F: &failure{Q: q, Kind: v.Kind, Detail: v.Detail}})
		}
		if k == 0 && len(samples) < 6 && j%(len(mine)/6+1) == 0 {
			samples = append(samples, map[string]any{"sql": showSQL(q.SQL()), "header": q.Hdr, "family": q.Fam, "template": q.Tmpl,
				"duckdb_ok": v.Oracle.OK, "duckdb_rows": len(v.Oracle.Rows), "arc_http": v.Cold.Status, "arc_rows": len(v.Cold.Rows), "verdict": v.Kind})
		}
	}
	s := &summary{Counters: c, Samples: samples, Complete: complete}
	for h := range hashes {
		s.Hashes = append(s.Hashes, h)
	}
	sort.Slice(s.Hashes, func(i, j int) bool { return s.Hashes[i] < s.Hashes[j] })
	enc.Encode(line{S: s})
	out.Flush()
	w.close()
	os.Exit(0)
}

// ---- minimisation -----------------------------------------------------------------------------------

// candidateTimeout is a backstop that bounds DuckDB on a minimisation candidate (queries with a recursive CTE,
// whose shortened forms may not terminate, are not shortened at all, see minimize).
const candidateTimeout = 60 * time.Second

type minimizer struct {
	w    *worker
	memo map[string]string
	runs int
}

// kindOf judges a candidate from a cold cache. When the oracle's outcome alone already rules out the wanted
// kind (DuckDB rejects the candidate but the kind needs its answer, or the reverse) Arc is not executed.
func (m *minimizer) kindOf(q *query, ordered bool, want string) string {
	key := q.Hdr + "\x00" + strconv.FormatBool(ordered) + "\x00" + q.SQL()
	if k, ok := m.memo[key]; ok {
		return k
	}
	sqlText := q.SQL()
	okey := "o\x00" + q.Hdr + "\x00" + sqlText
	ok, seen := m.memo[okey]
	if !seen {
		ok = "fails"
		if a := m.w.askOracleTimeout(sqlText, q.Hdr, candidateTimeout); a.OK {
			ok = "answers"
		} else if a.Err == "timeout" {
			ok = "timeout"
		}
		m.memo[okey] = ok
	}
	if ok == "timeout" {
		return "?duckdb-timeout" // a non-terminating candidate is never an instance of the class
	}
	if want != "" && (ok == "answers") == strings.Contains(want, "duckdb-fails") {
		return "?duckdb-" + ok
	}
	m.runs++
	m.w.handler.InvalidateCaches() // first execution must be cold
	var k string
	if want != "" && !strings.Contains(want, "warm") && !strings.Contains(want, "cold") {
		// candidates of a class that does not depend on the cache state are judged on the cold execution
		// only; the final minimal form is judged in full (twice) before it is reported
		k, _ = compare(m.w.askOracle(sqlText, q.Hdr), m.w.askArc(sqlText, q.Hdr), ordered)
	} else {
		qq := *q
		qq.Ordered = ordered
		k = m.w.judgeCounted(&qq, map[string]int64{}).Kind
	}
	m.memo[key] = k
	return k
}

func simpleIdent(s string) bool {
	if s == "" || !(s[0] == '_' || s[0] >= 'a' && s[0] <= 'z' || s[0] >= 'A' && s[0] <= 'Z') {
		return false
	}
	for i := 0; i < len(s); i++ {
		c := s[i]
		if !(c == '_' || c >= 'a' && c <= 'z' || c >= 'A' && c <= 'Z' || c >= '0' && c <= '9') {
			return false
		}
	}
	return true
}

var keywordSet = func() map[string]bool {
	set := map[string]bool{}
	for _, t := range templates {
		toks, _ := tokenize(strings.NewReplacer("{", " ", "}", " ", ":", " ").Replace(t.Text))
		for _, tk := range toks {
			if isKeyword(tk) {
				set[tk] = true
			}
		}
	}
	for _, k := range joinKinds {
		for _, w := range strings.Fields(k.Words) {
			set[w] = true
		}
	}
	return set
}()

// simpler lists replacement candidates for token i, simplest first: any table spelling -> cpu (then mem), any
// name in table position -> cpu / mem, a string literal -> 'a', a quoted identifier -> unquoted, a keyword ->
// upper case, a quoted or mixed-case column reference -> plain.
func simpler(toks []string, i int) []string {
	tok := toks[i]
	var out []string
	add := func(s string) {
		if s != tok {
			for _, o := range out {
				if o == s {
					return
				}
			}
			out = append(out, s)
		}
	}
	isRef := tok == "Disk_IO" || tok == `"Disk_IO"` || tok == "prod.Disk_IO"
	for _, sp := range spellings {
		for _, m := range []string{"cpu", "mem"} {
			if tok == sp.Text(m) {
				isRef = true
			}
		}
	}
	if i > 0 && tok != "(" && (simpleIdent(tok) || tok[0] == '"') && !keywordSet[strings.ToUpper(tok)] {
		switch strings.ToUpper(toks[i-1]) {
		case "FROM", "JOIN", "LATERAL":
			isRef = true
		}
	}
	if isRef && tok != "cpu" {
		add("cpu")
		if tok != "mem" {
			add("mem")
		}
	}
	if len(tok) >= 2 && tok[0] == '\'' {
		add("'a'")
	}
	if low := strings.ToLower(tok); low != tok && (low == "host" || low == "v" || low == "n" || low == "note" || low == "time") {
		add(low)
	}
	if len(tok) >= 2 && tok[0] == '"' && tok[len(tok)-1] == '"' {
		if in := tok[1 : len(tok)-1]; simpleIdent(in) {
			add(in)
		}
		add("x")
	}
	if up := strings.ToUpper(tok); up != tok && keywordSet[up] && !simpleIdentLower(tok) {
		add(up)
	}
	if j := strings.LastIndex(tok, "."); j > 0 && tok[0] != '"' && tok[0] != '\'' && !isRef {
		name := tok[j+1:]
		add(strings.Trim(strings.ToLower(name), `"`)) // a qualified column reference -> the bare column
		add(tok[:j+1] + "host")
		if len(name) >= 2 && name[0] == '"' {
			add(tok[:j+1] + name[1:len(name)-1])
		} else if low := strings.ToLower(name); low != name {
			add(tok[:j+1] + low)
		}
	}
	return out
}

// simpleIdentLower: an all-lower-case word that the templates use as a column (hour, day, time ...) and that
// must not be mistaken for a lower-cased keyword when it is also a keyword in upper case.
func simpleIdentLower(tok string) bool {
	switch tok {
	case "hour", "minute", "day", "year", "time", "true", "host", "note":
		return true
	}
	return false
}

var canonicalGaps = []string{"\n", "/*c*/", "--c\n", "\t"}

// reduce applies the cheap, order-independent simplifications: header off, every gap back to its default (or
// the simplest style that still fails), every token to a simpler spelling.
func (m *minimizer) reduce(q *query, kind string) *query {
	cur := q.clone()
	try := func(c *query) bool {
		if m.kindOf(c, false, kind) == kind {
			cur = c
			return true
		}
		return false
	}
	if cur.Hdr != "" {
		c := cur.clone()
		c.Hdr = ""
		try(c)
	}
	def := defaultGaps(cur.Glue)
	all := cur.clone()
	all.Gaps = append([]string{}, def...)
	if !try(all) {
		for i := 1; i < len(cur.Gaps); i++ {
			if cur.Gaps[i] == def[i] {
				continue
			}
			for _, g := range append([]string{def[i]}, canonicalGaps...) {
				if g == cur.Gaps[i] {
					break
				}
				c := cur.clone()
				c.Gaps[i] = g
				if try(c) {
					break
				}
			}
		}
	}
	// a CTE name other than c: rename it everywhere (definition, references, column qualifiers)
	for i := 1; i < len(cur.Toks); i++ {
		prev := strings.ToUpper(cur.Toks[i-1])
		name := strings.ToLower(strings.Trim(cur.Toks[i], `"`))
		if (prev != "WITH" && prev != "RECURSIVE") || name == "c" || name == "recursive" || name == "cpu" || name == "mem" {
			continue
		}
		c := cur.clone()
		for j, t := range c.Toks {
			switch lt := strings.ToLower(strings.Trim(t, `"`)); {
			case lt == name:
				c.Toks[j] = "c"
			case strings.HasPrefix(strings.ToLower(t), name+"."):
				c.Toks[j] = "c" + t[len(name):]
			}
		}
		try(c)
	}
	for i := 0; i < len(cur.Toks); i++ {
		for _, s := range simpler(cur.Toks, i) {
			c := cur.clone()
			c.Toks[i] = s
			if try(c) {
				break
			}
		}
	}
	return cur
}

func pick(q *query, ix []int) *query {
	c := &query{Hdr: q.Hdr, Ordered: q.Ordered, Fam: q.Fam, Tmpl: q.Tmpl}
	for n, i := range ix {
		c.Toks = append(c.Toks, q.Toks[i])
		c.Glue = append(c.Glue, q.Glue[i])
		g := q.Gaps[i]
		if n == 0 {
			g = ""
		}
		c.Gaps = append(c.Gaps, g)
	}
	return c
}

// minimize: reduce, then 1-minimal delta debugging over the tokens, then reduce again.
func (m *minimizer) minimize(q *query, kind string) *query {
	cur := m.reduce(q, kind)
	if strings.Contains(kind, "order-differs") {
		return cur // dropping ORDER BY tokens would make the order itself arbitrary
	}
	for _, t := range cur.Toks {
		if strings.EqualFold(t, "RECURSIVE") {
			return cur // dropping tokens of a recursive CTE yields non-terminating candidates
		}
	}
	for round := 0; round < 3; round++ {
		ix := make([]int, len(cur.Toks))
		for i := range ix {
			ix[i] = i
		}
		base := cur
		keep := ev.Minimize(ix, func(cand []int) bool {
			if len(cand) == 0 {
				return false
			}
			return m.kindOf(pick(base, cand), false, kind) == kind
		})
		// delta debugging only removes aligned chunks and single tokens: also try every contiguous range
		// (a whole WITH clause, a whole parenthesised subquery), longest first
		for again := true; again; {
			again = false
			for n := len(keep) - 1; n >= 2 && !again; n-- {
				for s := 0; s+n <= len(keep) && !again; s++ {
					cand := append(append([]int{}, keep[:s]...), keep[s+n:]...)
					if len(cand) > 0 && m.kindOf(pick(base, cand), false, kind) == kind {
						keep, again = cand, true
					}
				}
			}
		}
		next := m.reduce(pick(base, keep), kind)
		if len(next.Toks) == len(cur.Toks) && next.SQL() == cur.SQL() && next.Hdr == cur.Hdr {
			break
		}
		cur = next
	}
	return cur
}

// subsumes: every token of the minimal form occurs in q in order (where the minimal form has a non-default gap,
// q has a non-default gap too), under the same header condition.
func subsumes(min, q *query) bool {
	if min.Hdr != "" && min.Hdr != q.Hdr {
		return false
	}
	def := defaultGaps(min.Glue)
	j := 0
	for i := 0; i < len(q.Toks) && j < len(min.Toks); i++ {
		if canonTok(q.Toks[i]) != canonTok(min.Toks[j]) {
			continue
		}
		if j > 0 && min.Gaps[j] != def[j] && (i == 0 || q.Gaps[i] == defaultGap(q.Glue[i])) {
			continue // the minimal form needs a non-default gap here; q has the default one
		}
		j++
	}
	return j == len(min.Toks)
}

var refCanon = func() map[string]bool {
	set := map[string]bool{"Disk_IO": true, `"Disk_IO"`: true, "prod.Disk_IO": true}
	for _, sp := range spellings {
		for _, m := range []string{"cpu", "mem"} {
			if t := sp.Text(m); !strings.Contains(t, " ") {
				set[t] = true
			}
		}
	}
	return set
}()

// canonTok: for the subsumption test every spelling of every measurement counts as the same token.
func canonTok(t string) string {
	if refCanon[t] {
		return "cpu"
	}
	if t == "" || t[0] == '\'' {
		return t
	}
	// identifiers and keywords compare case-insensitively, a quoted simple identifier like the bare one
	if j := strings.LastIndex(t, "."); j >= 0 && len(t) > j+2 && t[j+1] == '"' && t[len(t)-1] == '"' && simpleIdent(t[j+2:len(t)-1]) {
		t = t[:j+1] + t[j+2:len(t)-1]
	} else if len(t) > 2 && t[0] == '"' && t[len(t)-1] == '"' && simpleIdent(t[1:len(t)-1]) {
		t = t[1 : len(t)-1]
	}
	return strings.ToUpper(t)
}

func signature(kind string, q *query) string {
	s := kind + "|" + showSQL(q.SQL())
	if q.Hdr != "" {
		s += "|x-arc-database=" + q.Hdr
	}
	return s
}

type class struct {
	Min    *query
	Kind   string
	Sig    string
	Count  int
	First  *failure
	Detail string
}

// ---- main ---------------------------------------------------------------------------------------------

func main() {
	run := ev.Start("C16", "exploration")
	tStart := time.Now()
	if spec := os.Getenv("VERIF_C16_CHILD"); spec != "" {
		childMain(run, spec, os.Getenv("VERIF_C16_STORE"), os.Getenv("VERIF_C16_SCRATCH"))
		return
	}
	scratch = fmt.Sprintf("/dev/shm/verif.c16.%d", os.Getpid())
	os.RemoveAll(scratch)
	store := filepath.Join(scratch, "store")
	must(os.MkdirAll(store, 0o755), "scratch")
	var procs []*exec.Cmd
	var procMu sync.Mutex
	killAll := func() {
		procMu.Lock()
		for _, c := range procs {
			if c.Process != nil {
				c.Process.Kill()
			}
		}
		procMu.Unlock()
	}
	sigc := make(chan os.Signal, 1)
	signal.Notify(sigc, syscall.SIGINT, syscall.SIGTERM)
	go func() { <-sigc; killAll(); cleanup(); os.Exit(2) }()

	written, nrows, err := writeFixtures(store)
	must(err, "fixtures")
	w0 := newWorker(store, filepath.Join(scratch, "w-main"))
	// the views must be over exactly the stored files, and the files must hold the generator's rows
	for key, files := range written {
		if strings.Join(files, ",") != strings.Join(w0.files[key], ",") {
			must(fmt.Errorf("%s: wrote %v, stored %v", key, files, w0.files[key]), "fixture files")
		}
		parts := strings.SplitN(key, "/", 2)
		a := w0.askOracle(`SELECT COUNT(*) FROM "`+parts[0]+`"."`+parts[1]+`"`, "")
		if !a.OK || len(a.Rows) != 1 || a.Rows[0] != "n:"+strconv.Itoa(nrows[key]) {
			must(fmt.Errorf("%s: expected %d rows, oracle says %+v", key, nrows[key], a), "fixture read-back")
		}
	}

	if os.Getenv("VERIF_C16_DEV") != "" {
		devMode(w0, nrows)
		return
	}
	if run.Replay != "" {
		replay(run, w0)
		return
	}

	// size of the space (the children enumerate the same list)
	total := 0
	famTotal := map[string]int{}
	tmplSeen := map[string]bool{}
	enumerate(run.Quick(), func(q *query) {
		total++
		famTotal[q.Fam]++
		tmplSeen[q.Tmpl] = true
	})
	totalPairs := 0
	pairFamilies := map[string]int{}
	enumeratePairs(run.Quick(), func(p *seqPair) {
		totalPairs++
		pairFamilies[p.Base+"|header="+p.Hdr]++
	})
	if os.Getenv("VERIF_C16_COUNT") != "" {
		fmt.Println("cases:", total, famTotal, "ordered pairs:", totalPairs, pairFamilies)
		w0.close()
		cleanup()
		return
	}

	// the worker processes stop a quarter of the budget before the deadline: classification needs the rest
	childDeadline := run.Deadline.Add(-time.Until(run.Deadline) / 4)
	nProcs := 16
	loadFile := os.Getenv("VERIF_C16_LOAD") // development aid: classify a dumped failure list, no enumeration
	if loadFile != "" {
		nProcs = 0
	}
	if n, err := strconv.Atoi(os.Getenv("VERIF_C16_WORKERS")); err == nil && n > 0 && loadFile == "" {
		nProcs = n
	}
	self, err := os.Executable()
	must(err, "os.Executable")
	var fails []*failure
	var pairFails []*pairFailure
	var failMu sync.Mutex
	sums := make([]*summary, nProcs)
	var wg sync.WaitGroup
	var childErr atomic.Value
	for k := 0; k < nProcs; k++ {
		cmd := exec.Command(self, run.Tier)
		cmd.Env = append(os.Environ(), fmt.Sprintf("VERIF_C16_CHILD=%d/%d/%d", k, nProcs, childDeadline.Unix()), "VERIF_C16_SCRATCH="+scratch,
			"VERIF_C16_STORE="+store, fmt.Sprintf("VERIF_SEED=%d", run.Seed), "VERIF_TIER="+run.Tier)
		cmd.SysProcAttr = &syscall.SysProcAttr{Pdeathsig: syscall.SIGKILL}
		var stderr bytes.Buffer
		cmd.Stderr = &stderr
		if os.Getenv("VERIF_C16_DEBUG") != "" {
			cmd.Stderr = os.Stderr
		}
		pipe, err := cmd.StdoutPipe()
		must(err, "pipe")
		must(cmd.Start(), "start worker process")
		procMu.Lock()
		procs = append(procs, cmd)
		procMu.Unlock()
		wg.Add(1)
		go func(k int) {
			defer wg.Done()
			sc := bufio.NewScanner(pipe)
			sc.Buffer(make([]byte, 1<<20), 1<<26)
			for sc.Scan() {
				var l line
				if json.Unmarshal(sc.Bytes(), &l) != nil || (l.F == nil && l.S == nil && l.P == nil) {
					childErr.CompareAndSwap(nil, "worker process said: "+trunc(sc.Text(), 400))
					continue
				}
				if l.F != nil {
					failMu.Lock()
					fails = append(fails, l.F)
					failMu.Unlock()
				}
				if l.P != nil {
					failMu.Lock()
					pairFails = append(pairFails, l.P)
					failMu.Unlock()
				}
				if l.S != nil {
					sums[k] = l.S
				}
			}
			if err := cmd.Wait(); err != nil {
				childErr.CompareAndSwap(nil, fmt.Sprintf("worker process failed: %v %s", err, trunc(stderr.String(), 600)))
			}
		}(k)
	}
	wg.Wait()
	if e := childErr.Load(); e != nil {
		cleanup()
		msg := e.(string)
		if i := strings.Index(msg, "HARNESS-UNBOUND: "); i >= 0 {
			msg = msg[i+len("HARNESS-UNBOUND: "):]
		}
		ev.Unbound(strings.TrimSpace(msg))
	}
	tEnum := time.Since(tStart)
	if loadFile != "" {
		b, err := os.ReadFile(loadFile)
		must(err, "load")
		must(json.Unmarshal(b, &fails), "load")
		sums = []*summary{{Counters: map[string]int64{}, Complete: false}}
	}

	counters := map[string]int64{}
	hashes := map[uint64]bool{}
	var samples []any
	complete := true
	for k, s := range sums {
		if s == nil {
			cleanup()
			ev.Unbound(fmt.Sprintf("worker process %d sent no summary", k))
		}
		for n, v := range s.Counters {
			counters[n] += v
		}
		for _, h := range s.Hashes {
			hashes[h] = true
		}
		samples = append(samples, s.Samples...)
		complete = complete && s.Complete
	}

	// ---- classify: simplest failure first; a failure that contains an already minimal form of the same kind
	// is an instance of that class, anything else is minimised (reduce, then delta debugging over tokens).
	sort.SliceStable(fails, func(i, j int) bool {
		a, b := fails[i], fails[j]
		if len(a.Q.Toks) != len(b.Q.Toks) {
			return len(a.Q.Toks) < len(b.Q.Toks)
		}
		sa, sb := a.Q.SQL(), b.Q.SQL()
		if len(sa) != len(sb) {
			return len(sa) < len(sb)
		}
		if sa != sb {
			return sa < sb
		}
		return a.Q.Hdr < b.Q.Hdr
	})
	if p := os.Getenv("VERIF_C16_DUMP"); p != "" { // development aid
		b, _ := json.Marshal(fails)
		os.WriteFile(p, b, 0o644)
	}
	debug := os.Getenv("VERIF_C16_DEBUG") != ""
	// Minimisation runs in rounds on a pool of in-process workers (each its own Arc DuckDB, handler and
	// oracles). A round takes, in list order, the first failures that no known class subsumes and that differ
	// pairwise in (kind, template, header); they are minimised in parallel and merged in list order, so the
	// outcome does not depend on goroutine timing.
	poolSize := 8
	if n, err := strconv.Atoi(os.Getenv("VERIF_C16_MINIMIZERS")); err == nil && n > 0 {
		poolSize = n
	}
	// hints: minimal forms recorded from earlier runs (hints.json next to this file). A hint is only a CANDIDATE:
	// it becomes the class of a failure when the failure contains it (subsumption), the kinds are equal and
	// the hint itself, judged now on this tree from a cold cache, fails with exactly that kind. This replaces
	// hundreds of minimisation runs per known class by one verification; anything no hint explains is
	// minimised as before.
	var hints []*failure
	if b, err := os.ReadFile(filepath.Join(ev.Root, "harness/checks/c16/hints.json")); err == nil && os.Getenv("VERIF_C16_NOHINTS") == "" {
		must(json.Unmarshal(b, &hints), "hints.json")
	}
	hintState := map[int]int{} // 0 unknown, 1 verified, 2 does not fail (any more)
	pool := []*minimizer{{w: w0, memo: map[string]string{}}}
	var classes []*class
	bySig := map[string]*class{}
	kindHist := map[string]int{}
	find := func(q *query, kind string) *class {
		for _, c := range classes {
			if c.Kind == kind && subsumes(c.Min, q) {
				return c
			}
		}
		return nil
	}
	type job struct {
		f        *failure
		red, min *query
		err      string
		secs     float64
		runs     int
	}
	for _, f := range fails {
		kindHist[f.Kind]++
	}
	minRuns, rounds, hinted := 0, 0, 0
	tryHints := func(f *failure) bool {
		for hi, h := range hints {
			if h.Kind != f.Kind || hintState[hi] == 2 || !subsumes(h.Q, f.Q) {
				continue
			}
			if hintState[hi] == 0 {
				hintState[hi] = 2
				ok := true
				var detail string
				for i := 0; i < 2 && ok; i++ { // like every reported minimal form: twice, from a cold cache
					w0.handler.InvalidateCaches()
					qq := *h.Q
					qq.Ordered = strings.Contains(h.Kind, "order-differs")
					v := w0.judgeCounted(&qq, map[string]int64{})
					minRuns++
					ok = v.Kind == h.Kind
					detail = v.Detail
				}
				if ok {
					hintState[hi] = 1
					sig := signature(h.Kind, h.Q)
					if _, dup := bySig[sig]; !dup {
						c := &class{Min: h.Q, Kind: h.Kind, Sig: sig, First: f, Detail: detail}
						classes = append(classes, c)
						bySig[sig] = c
						hinted++
					}
				}
			}
			if hintState[hi] == 1 {
				if c := find(f.Q, f.Kind); c != nil {
					c.Count++
					return true
				}
			}
		}
		return false
	}
	pending := fails
	for len(pending) > 0 {
		rounds++
		var batch []*job
		var rest []*failure
		keys := map[string]bool{}
		for _, f := range pending {
			if c := find(f.Q, f.Kind); c != nil {
				c.Count++
				continue
			}
			if tryHints(f) {
				continue
			}
			k := f.Kind + "\x00" + f.Q.Tmpl + "\x00" + f.Q.Hdr
			if len(batch) < poolSize && !keys[k] {
				keys[k] = true
				batch = append(batch, &job{f: f})
			} else {
				rest = append(rest, f)
			}
		}
		pending = rest
		for len(pool) < len(batch) {
			pool = append(pool, nil)
		}
		var wg sync.WaitGroup
		for i, j := range batch {
			wg.Add(1)
			go func(i int, j *job) {
				defer wg.Done()
				if pool[i] == nil {
					pool[i] = &minimizer{w: newWorker(store, filepath.Join(scratch, fmt.Sprintf("w-min%d", i))), memo: map[string]string{}}
				}
				mz := pool[i]
				t0, r0 := time.Now(), mz.runs
				if k := mz.kindOf(j.f.Q, j.f.Q.Ordered, ""); k != j.f.Kind {
					j.err = fmt.Sprintf("%q (header %q): a worker process reported %q, the replay in the main process %q", showSQL(j.f.Q.SQL()), j.f.Q.Hdr, j.f.Kind, k)
					return
				}
				j.red = mz.reduce(j.f.Q, j.f.Kind)
				j.min = mz.minimize(j.red, j.f.Kind)
				j.secs, j.runs = time.Since(t0).Seconds(), mz.runs-r0
			}(i, j)
		}
		wg.Wait()
		for _, j := range batch {
			f := j.f
			if j.err != "" {
				cleanup()
				ev.Nondeterminism(j.err)
			}
			minRuns += j.runs
			if c := find(f.Q, f.Kind); c != nil { // a class created earlier in this round
				c.Count++
				continue
			}
			if c := find(j.red, f.Kind); c != nil {
				c.Count++
				continue
			}
			sig := signature(f.Kind, j.min)
			if debug {
				fmt.Fprintf(os.Stderr, "round %d minimised %5.1fs %4d runs  %s -> %s\n", rounds, j.secs, j.runs, showSQL(f.Q.SQL()), sig)
			}
			if c, ok := bySig[sig]; ok {
				c.Count++
				continue
			}
			// the minimal case must reproduce identically, twice, from a cold cache
			var detail string
			for i := 0; i < 2; i++ {
				w0.handler.InvalidateCaches()
				qq := *j.min
				qq.Ordered = strings.Contains(f.Kind, "order-differs")
				v := w0.judgeCounted(&qq, map[string]int64{})
				if v.Kind != f.Kind {
					cleanup()
					ev.Nondeterminism("minimal case for " + sig + " did not reproduce: " + v.Kind)
				}
				detail = v.Detail
			}
			c := &class{Min: j.min, Kind: f.Kind, Sig: sig, Count: 1, First: f, Detail: detail}
			classes = append(classes, c)
			bySig[sig] = c
		}
	}
	for _, mz := range pool[1:] {
		if mz != nil {
			mz.w.close()
		}
	}
	// ---- failing ordered pairs: simplest first; a pair whose two statements contain (literals aside) the two
	// statements of an already minimal pair of the same kind is an instance of that class
	sort.SliceStable(pairFails, func(i, j int) bool {
		a, b := pairFails[i].P, pairFails[j].P
		if len(a.B.Toks) != len(b.B.Toks) {
			return len(a.B.Toks) < len(b.B.Toks)
		}
		sa, sb := a.B.SQL()+"\x00"+a.A.SQL(), b.B.SQL()+"\x00"+b.A.SQL()
		if len(sa) != len(sb) {
			return len(sa) < len(sb)
		}
		if sa != sb {
			return sa < sb
		}
		return a.A.Hdr+"\x00"+a.B.Hdr < b.A.Hdr+"\x00"+b.B.Hdr
	})
	type pairClass struct {
		A, B   *query
		Kind   string
		Sig    string
		Count  int
		First  *pairFailure
		Detail string
	}
	var pairClasses []*pairClass
	pairBySig := map[string]*pairClass{}
	pm := &pairMin{w: w0, oracle: map[string]*answer{}, memo: map[string]string{}}
	for _, f := range pairFails {
		kindHist[f.Kind]++
		var hit *pairClass
		for _, c := range pairClasses {
			if c.Kind == f.Kind && subsumes(canonLit(c.A), canonLit(f.P.A)) && subsumes(canonLit(c.B), canonLit(f.P.B)) {
				hit = c
				break
			}
		}
		if hit != nil {
			hit.Count++
			continue
		}
		if k := pm.kindOf(f.P.A, f.P.B); k != f.Kind {
			cleanup()
			ev.Nondeterminism(fmt.Sprintf("%q after %q: a worker process reported %q, the replay in the main process %q", showSQL(f.P.B.SQL()), showSQL(f.P.A.SQL()), f.Kind, k))
		}
		a, b := pm.minimizePair(f.P, f.Kind)
		sig := pairSignature(f.Kind, a, b)
		if debug {
			fmt.Fprintf(os.Stderr, "pair minimised %4d runs  %s after %s -> %s\n", pm.runs, showSQL(f.P.B.SQL()), showSQL(f.P.A.SQL()), sig)
		}
		if c, ok := pairBySig[sig]; ok {
			c.Count++
			continue
		}
		var detail string
		for i := 0; i < 2; i++ { // the minimal pair must reproduce identically, twice
			k, d, _ := w0.judgePair(a, b, w0.askOracle(b.SQL(), b.Hdr))
			if k != f.Kind {
				cleanup()
				ev.Nondeterminism("minimal pair for " + sig + " did not reproduce: " + k)
			}
			detail = d
		}
		c := &pairClass{A: a, B: b, Kind: f.Kind, Sig: sig, Count: 1, First: f, Detail: detail}
		pairClasses = append(pairClasses, c)
		pairBySig[sig] = c
	}
	minRuns += pm.runs
	for _, c := range pairClasses {
		desc := fmt.Sprintf("requested on the same handler right after %s [header %q] (caches emptied before): %s; the same statement from empty caches is answered correctly; first enumerated instance: %s [header %q] after %s [header %q], family %s, deviations %s -> %s",
			showSQL(c.A.SQL()), c.A.Hdr, c.Detail, showSQL(c.First.P.B.SQL()), c.First.P.B.Hdr, showSQL(c.First.P.A.SQL()), c.First.P.A.Hdr, c.First.P.Base, c.First.P.LabA, c.First.P.LabB)
		rep := map[string]any{"sql": c.B.SQL(), "header": c.B.Hdr, "after_sql": c.A.SQL(), "after_header": c.A.Hdr, "kind": c.Kind}
		for i := 0; i < c.Count; i++ {
			run.Violate(c.Sig, desc, rep)
		}
	}
	if p := os.Getenv("VERIF_C16_WRITE_HINTS"); p != "" { // maintenance aid: record this run's minimal forms
		var hs []*failure
		for _, c := range classes {
			hs = append(hs, &failure{Q: c.Min, Kind: c.Kind})
		}
		b, _ := json.MarshalIndent(hs, "", " ")
		os.WriteFile(p, b, 0o644)
	}
	tClass := time.Since(tStart) - tEnum
	for _, c := range classes {
		desc := fmt.Sprintf("%s; first enumerated instance: %s [header %q, family %s, template %s]", c.Detail, showSQL(c.First.Q.SQL()), c.First.Q.Hdr, c.First.Q.Fam, c.First.Q.Tmpl)
		rep := map[string]any{"sql": c.Min.SQL(), "header": c.Min.Hdr, "kind": c.Kind, "first_instance_sql": c.First.Q.SQL(), "first_instance_header": c.First.Q.Hdr}
		for i := 0; i < c.Count; i++ {
			run.Violate(c.Sig, desc, rep)
		}
	}

	styles := gapStylesThorough
	if run.Quick() {
		styles = append(append([]string{}, quickUniform...), "\f", "/*/*n*/*/")
	}
	var styleNames []string
	for _, s := range styles {
		styleNames = append(styleNames, showSQL(s))
	}
	famCov := map[string]any{}
	fams := families
	if run.Quick() {
		fams = quickFamilies
	}
	for _, f := range fams {
		famCov[f.Name] = map[string]any{"cases": famTotal[f.Name], "judged": counters["fam:"+f.Name], "product": f.Desc}
	}
	pairDev := map[string]int64{}
	for n, v := range counters {
		if strings.HasPrefix(n, "pairdev:") {
			pairDev[strings.TrimPrefix(n, "pairdev:")] = v
		}
	}
	run.Coverage["evaluations"] = counters["evaluations"] + counters["pairs"]
	run.Coverage["single_statement_cases"] = counters["evaluations"]
	run.Coverage["executions"] = 3*counters["evaluations"] + 2*counters["pairs"]
	run.Coverage["cases_in_space"] = total
	run.Coverage["sequences"] = map[string]any{
		"ordered_pairs_in_space": totalPairs, "ordered_pairs_judged": counters["pairs"], "families_base_and_header": pairFamilies,
		"pairs_whose_two_duckdb_answers_differ": counters["pairs_answers_differ"], "pairs_where_B_was_served_from_the_cache_after_A_only": counters["pairs_b_served_from_cache"],
		"pairs_failing_like_B_alone": counters["pairs_single_statement_defect"], "pairs_failing": counters["pairs_failing"], "judged_by_deviation_of_B": pairDev,
		"rule": "per base statement and header value: the base and every single deviation (literal case / trailing blank / trailing character / content, number vs string literal, keyword case, identifier case, quoted vs unquoted identifier, quoted and bare alias case, header database, comment added or changed, extra whitespace, trailing semicolon, other measurement); EVERY ordered pair (A, B) of a family: InvalidateCaches, request A, request B on the same handler, B's answer against plain DuckDB's answer to B",
	}
	run.Coverage["distinct_nontrivial"] = len(hashes)
	run.Coverage["nontrivial_cases"] = counters["nontrivial"]
	run.Coverage["rule"] = "cases = union of four full products over " + fmt.Sprint(len(templates)) + " templates (single table, set operations, joins, LATERAL, CTEs incl. CTEs shadowing a measurement, subqueries in FROM/WHERE/SELECT, EXTRACT/SUBSTRING/TRIM bodies), " + fmt.Sprint(len(joinKinds)) + " join kinds/spellings, 10 table-reference spellings per table, gap styles between every pair of tokens, string literals, aliases, identifier and keyword case, each without and with x-arc-database: prod (see families); duplicates are dropped; every case = 1 plain-DuckDB execution + 2 executions through the real handler (transform cache cold, then warm). A case is non-trivial when DuckDB accepts the query and returns at least one row (so equality of the answers constrains Arc); distinct = distinct DuckDB answers (columns + row multiset) among non-trivial cases"
	run.Coverage["families"] = famCov
	run.Coverage["templates"] = len(tmplSeen)
	run.Coverage["join_kinds"] = len(joinKinds)
	run.Coverage["gap_styles"] = styleNames
	run.Coverage["with_header"] = counters["with_header"]
	run.Coverage["both_answer"] = counters["both_answer"]
	run.Coverage["both_fail"] = counters["both_fail"]
	run.Coverage["transform_cache"] = map[string]int64{"cold_then_warm": counters["cache_cold_then_warm"], "not_consulted": counters["cache_not_consulted"],
		"cold_state_not_reached": counters["cache_cold_state_not_reached"], "warm_state_not_reached": counters["cache_warm_state_not_reached"]}
	run.Coverage["failing_cases_before_minimisation"] = len(fails)
	run.Coverage["violated_oracles_before_minimisation"] = kindHist
	run.Coverage["minimisation_runs"] = minRuns
	run.Coverage["minimisation_rounds"] = rounds
	run.Coverage["classes_from_verified_hints"] = hinted
	run.Coverage["dataset_rows"] = nrows
	run.Coverage["samples"] = samples
	run.Coverage["exhaustive"] = complete && int(counters["evaluations"]) == total && int(counters["pairs"]) == totalPairs && os.Getenv("VERIF_C16_FILTER") == ""
	run.Coverage["worker_processes"] = nProcs
	run.Coverage["enumeration_s"] = tEnum.Seconds()
	run.Coverage["classification_s"] = tClass.Seconds()
	run.Assume("the oracle is a plain DuckDB (database/sql + duckdb driver, same library version as Arc's) with one view per measurement over exactly the stored Parquet files (read_parquet([...], union_by_name=true)); without the header unqualified names are the measurements of database \"default\" (Arc's rule) and both databases are schemas; with x-arc-database: prod unqualified names are prod's measurements")
	run.Assume("compared: columns, data (cell values by value: numbers numerically, timestamps as instants, NULL), row_count, and success/failure; never execution_time_ms, timestamp or error text (response encoding is C19's business). Arc runs with threads=1 and preserve_insertion_order=true so that POSITIONAL JOIN is deterministic on both sides")
	run.Assume("outside the grammar: time_bucket/date_trunc/regex/LIKE rewrites (C17), time-literal predicates and partition pruning (C18), db-qualified references together with the header (rejected by design), a measurement referenced in a different letter case than it is stored under (Arc's measurement names are case-sensitive directory names), more than two tables, aggregates over non-integer doubles, S3/Azure backends, tiering, RBAC")
	fmt.Printf("C16 ordered_pairs=%d judged=%d answers_differ=%d served_from_cache=%d failing=%d pair_classes=%d\n", totalPairs, counters["pairs"], counters["pairs_answers_differ"], counters["pairs_b_served_from_cache"], len(pairFails), len(pairClasses))
	fmt.Printf("C16 cases=%d judged=%d nontrivial=%d distinct_answers=%d both_fail=%d cache(cold+warm=%d not-consulted=%d) failing=%d classes=%d minimisation_runs=%d enumeration=%.1fs classification=%.1fs\n",
		total, counters["evaluations"], counters["nontrivial"], len(hashes), counters["both_fail"], counters["cache_cold_then_warm"], counters["cache_not_consulted"], len(fails), len(classes), minRuns, tEnum.Seconds(), tClass.Seconds())
	if len(hashes) < 2 {
		fmt.Println("C16 VACUITY WARNING: fewer than two distinct answers")
	}
	w0.close()
	cleanup()
	run.Finish()
}

// replay runs one recorded case (the "replay" object of a replay file) and reports its verdict.
func replay(run *ev.Run, w *worker) {
	b, err := os.ReadFile(run.Replay)
	must(err, "replay file")
	var f struct {
		Replay struct {
			SQL         string `json:"sql"`
			Header      string `json:"header"`
			AfterSQL    string `json:"after_sql"`
			AfterHeader string `json:"after_header"`
		} `json:"replay"`
	}
	must(json.Unmarshal(b, &f), "replay json")
	q := &query{Toks: []string{f.Replay.SQL}, Glue: []bool{true}, Gaps: []string{""}, Hdr: f.Replay.Header}
	if f.Replay.AfterSQL != "" {
		a := &query{Toks: []string{f.Replay.AfterSQL}, Glue: []bool{true}, Gaps: []string{""}, Hdr: f.Replay.AfterHeader}
		k, d, served := w.judgePair(a, q, w.askOracle(q.SQL(), q.Hdr))
		fmt.Printf("C16 replay header=%q sql=%s\n  after header=%q sql=%s\n  verdict=%q served_from_cache=%v %s\n", q.Hdr, showSQL(q.SQL()), a.Hdr, showSQL(a.SQL()), k, served, d)
		if k != "" {
			run.Violate(pairSignature(k, a, q), d, f.Replay)
		}
		w.close()
		cleanup()
		run.Finish()
	}
	v := w.judgeCounted(q, map[string]int64{})
	fmt.Printf("C16 replay header=%q sql=%s\n  verdict=%q %s\n", q.Hdr, showSQL(q.SQL()), v.Kind, v.Detail)
	if v.Kind != "" {
		run.Violate(signature(v.Kind, q), v.Detail, f.Replay)
	}
	w.close()
	cleanup()
	run.Finish()
}

// devMode: VERIF_C16_DEV=1|2, one query per stdin line ("@hdr " prefix sets the header, \n \t escapes).
func devMode(w *worker, nrows map[string]int) {
	fmt.Println("rows:", nrows)
	sc := bufio.NewScanner(os.Stdin)
	sc.Buffer(make([]byte, 1<<20), 1<<20)
	var tOr, tCold, tWarm time.Duration
	defer func() { fmt.Println("oracle", tOr, "cold", tCold, "warm", tWarm) }()
	for sc.Scan() {
		ln := sc.Text()
		if strings.TrimSpace(ln) == "" {
			continue
		}
		hdr := ""
		if strings.HasPrefix(ln, "@") {
			i := strings.Index(ln, " ")
			hdr, ln = ln[1:i], ln[i+1:]
		}
		ln = strings.NewReplacer(`\n`, "\n", `\t`, "\t", `\r`, "\r", `\f`, "\f", `\v`, "\v").Replace(ln)
		if os.Getenv("VERIF_C16_DEV") == "t" {
			t0 := time.Now()
			w.askOracle(ln, hdr)
			t1 := time.Now()
			w.askArc(ln, hdr)
			t2 := time.Now()
			w.askArc(ln, hdr)
			tOr += t1.Sub(t0)
			tCold += t2.Sub(t1)
			tWarm += time.Since(t2)
			continue
		}
		cc := map[string]int64{}
		v := w.judgeCounted(&query{Toks: []string{ln}, Glue: []bool{true}, Gaps: []string{""}, Hdr: hdr}, cc)
		fmt.Printf("== [%s] %s\n   kind=%q %s cache=%v\n", hdr, showSQL(ln), v.Kind, v.Detail, cc)
		if os.Getenv("VERIF_C16_DEV") == "2" {
			b, _ := json.Marshal(v.Oracle)
			fmt.Printf("   oracle: %s\n", b)
			b, _ = json.Marshal(v.Cold)
			fmt.Printf("   arc:    %s\n", b)
		} else if !v.Oracle.OK {
			fmt.Printf("   oracle error: %s\n", trunc(v.Oracle.Err, 200))
		} else {
			fmt.Printf("   oracle rows=%d cols=%v\n", v.Oracle.Count, v.Oracle.Cols)
		}
	}
	w.close()
	cleanup()
}
