package main

import (
	"database/sql"
	"fmt"
	"os"
	"path/filepath"
	"sort"
	"strings"
)

// ---- dataset: 3 measurements (cpu, mem, Disk_IO) in 2 databases (default, prod) -------------------
//
// Every measurement has the core columns time TIMESTAMP, host VARCHAR, note VARCHAR, v DOUBLE (integer
// valued), n BIGINT, all nullable, plus its own extra columns; one file of each of cpu and mem lacks one of
// the extra columns (schema difference between files). Files sit in several hour and day partitions under
// db/measurement/YYYY/MM/DD/HH/. The rows of database prod are those of database default with v and n
// shifted by 10 and the last row of every file dropped, so an answer computed over the wrong database can
// never equal the right one. cpu and mem also hold hosts/notes that differ only in letter case ('Web-A', 'web-a',
// 'WEB-A'), in a trailing blank ('web-a ') or a trailing character ('web-ab'), each with its own v and n, so
// that the answer to a statement can never equal the answer to a near-identical statement (sequence families).

type fileSpec struct {
	Rel  string   // YYYY/MM/DD/HH/name.parquet
	Cols []string // "name TYPE"
	Rows [][]string
}

type measSpec struct {
	Name  string
	Files []fileSpec
}

const N = "NULL"

func ts(s string) string { return "TIMESTAMP '" + s + "'" }

var core = []string{"time TIMESTAMP", "host VARCHAR", "note VARCHAR", "v DOUBLE", "n BIGINT"}

func cols(extra ...string) []string { return append(append([]string{}, core...), extra...) }

var measurements = []measSpec{
	{Name: "cpu", Files: []fileSpec{
		{Rel: "2024/03/13/10/cpu_a1.parquet", Cols: cols("region VARCHAR", "ok BOOLEAN", "extra BIGINT"), Rows: [][]string{
			{ts("2024-03-13 10:00:01"), "'a'", "'xax'", "1", "1", "'eu'", "true", "7"},
			{ts("2024-03-13 10:00:02"), "'b'", "' b '", "2", "2", "'us'", "false", N},
			{ts("2024-03-13 10:00:03"), N, N, "3", "3", N, N, "9"},
		}},
		{Rel: "2024/03/13/10/cpu_a2.parquet", Cols: cols("region VARCHAR", "ok BOOLEAN", "extra BIGINT"), Rows: [][]string{
			{ts("2024-03-13 10:00:01"), "'a'", "'xax'", "1", "1", "'eu'", "true", "7"}, // full duplicate of a row in a1
			{ts("2024-03-13 10:30:00"), "'c'", "'xx'", N, "4", "'us'", "true", "2"},
		}},
		{Rel: "2024/03/13/11/cpu_b.parquet", Cols: cols("region VARCHAR", "ok BOOLEAN"), Rows: [][]string{ // no column extra
			{ts("2024-03-13 11:00:01"), "'a'", "'ya'", "4", N, "'eu'", "true"},
			{ts("2024-03-13 11:00:02"), "'c'", N, N, "5", "'us'", N},
			{ts("2024-03-13 11:00:03"), "'b'", "'xbx'", "2", "2", N, "false"},
		}},
		{Rel: "2024/03/14/00/cpu_c.parquet", Cols: cols("region VARCHAR", "ok BOOLEAN", "extra BIGINT"), Rows: [][]string{
			{ts("2024-03-14 00:00:01"), "'a'", "'x'", "5", "6", "'eu'", "false", "1"},
			{ts("2024-03-14 00:00:02"), "'d'", "'from'", "6", "7", "'ap'", "true", N},
			// values that differ only in letter case, trailing blank or trailing character (sequence families)
			{ts("2024-03-14 00:10:01"), "'Web-A'", "'Web-A'", "21", "31", "'eu'", "true", N},
			{ts("2024-03-14 00:10:02"), "'web-a'", "'web-a'", "22", "32", "'eu'", "false", N},
			{ts("2024-03-14 00:10:03"), "'WEB-A'", "'WEB-A'", "23", "33", "'us'", "true", N},
			{ts("2024-03-14 00:10:04"), "'web-a '", "'web-a '", "24", "34", "'us'", N, N},
			{ts("2024-03-14 00:10:05"), "'web-ab'", "'web-ab'", "25", "35", "'ap'", "true", N},
			{ts("2024-03-14 00:00:04"), "'b'", "'q'", "7", "8", "'us'", "true", "3"},
		}},
	}},
	{Name: "mem", Files: []fileSpec{ // (host, time) is unique here: mem is the right side of ASOF joins
		{Rel: "2024/03/13/10/mem_a.parquet", Cols: cols("free DOUBLE"), Rows: [][]string{
			{ts("2024-03-13 10:00:01"), "'a'", "'xax'", "1", "1", "10"}, // equals cpu's duplicated row on the core columns
			{ts("2024-03-13 10:00:02"), "'b'", "'m'", "9", "2", "20"},
			{ts("2024-03-13 10:00:00"), "'c'", N, "3", N, "30"},
		}},
		{Rel: "2024/03/13/12/mem_b.parquet", Cols: cols("free DOUBLE"), Rows: [][]string{
			{ts("2024-03-13 12:00:00"), "'a'", "'z'", "2", "4", N},
			{ts("2024-03-13 12:00:05"), N, "'q'", "1", "1", "5"},
			{ts("2024-03-13 12:00:06"), "'d'", "'xdx'", "4", "9", "6"},
		}},
		{Rel: "2024/03/14/00/mem_c.parquet", Cols: cols(), Rows: [][]string{ // no column free
			{ts("2024-03-14 00:00:01"), "'a'", "'x'", "5", "6"}, // equals a cpu row on the core columns
			{ts("2024-03-14 00:00:03"), "'e'", "'w'", "7", "8"},
			{ts("2024-03-14 00:20:01"), "'Web-A'", "'Web-A'", "41", "51"},
			{ts("2024-03-14 00:20:02"), "'web-a'", "'web-a'", "42", "52"},
			{ts("2024-03-14 00:20:03"), "'WEB-A'", "'WEB-A'", "43", "53"},
			{ts("2024-03-14 00:20:04"), "'web-a '", "'web-a '", "44", "54"},
			{ts("2024-03-14 00:20:05"), "'web-ab'", "'web-ab'", "45", "55"},
			{ts("2024-03-14 00:00:05"), "'b'", "' b '", "8", "2"},
		}},
	}},
	{Name: "Disk_IO", Files: []fileSpec{
		{Rel: "2024/03/13/10/disk_a.parquet", Cols: cols("\"Rd\" BIGINT"), Rows: [][]string{
			{ts("2024-03-13 10:00:01"), "'a'", "'xax'", "1", "1", "100"},
			{ts("2024-03-13 10:00:09"), "'b'", "'k'", "2", "3", "200"},
			{ts("2024-03-13 10:00:10"), N, "'xnx'", "3", N, N},
		}},
		{Rel: "2024/03/15/05/disk_b.parquet", Cols: cols("\"Rd\" BIGINT"), Rows: [][]string{
			{ts("2024-03-15 05:00:00"), "'a'", N, "8", N, "300"},
			{ts("2024-03-15 05:00:01"), "'c'", "'x'", "4", "4", "400"},
			{ts("2024-03-15 05:00:02"), "'d'", "'y'", "6", "5", "500"},
		}},
	}},
}

var databases = []string{"default", "prod"}

// writeFixtures writes every file with a plain DuckDB COPY (never Arc's code) and returns, per
// "db/measurement", the sorted absolute file paths and the number of rows written.
func writeFixtures(store string) (map[string][]string, map[string]int, error) {
	db, err := sql.Open("duckdb", "")
	if err != nil {
		return nil, nil, err
	}
	defer db.Close()
	db.SetMaxOpenConns(1)
	files := map[string][]string{}
	rows := map[string]int{}
	seq := 0
	for _, dbn := range databases {
		for _, m := range measurements {
			key := dbn + "/" + m.Name
			for _, f := range m.Files {
				seq++
				tbl := fmt.Sprintf("fx%d", seq)
				if _, err := db.Exec("CREATE TABLE " + tbl + "(" + strings.Join(f.Cols, ", ") + ")"); err != nil {
					return nil, nil, fmt.Errorf("create %s: %w", tbl, err)
				}
				rs := f.Rows
				if dbn == "prod" {
					rs = rs[:len(rs)-1]
				}
				var vals []string
				for _, r := range rs {
					r = append([]string{}, r...)
					if dbn == "prod" {
						for _, ix := range []int{3, 4} { // v, n
							if r[ix] != N {
								r[ix] = r[ix] + " + 10"
							}
						}
					}
					vals = append(vals, "("+strings.Join(r, ", ")+")")
				}
				if _, err := db.Exec("INSERT INTO " + tbl + " VALUES " + strings.Join(vals, ", ")); err != nil {
					return nil, nil, fmt.Errorf("insert %s: %w", tbl, err)
				}
				p := filepath.Join(store, dbn, m.Name, f.Rel)
				if err := os.MkdirAll(filepath.Dir(p), 0o755); err != nil {
					return nil, nil, err
				}
				if _, err := db.Exec("COPY " + tbl + " TO '" + p + "' (FORMAT PARQUET)"); err != nil {
					return nil, nil, fmt.Errorf("copy %s: %w", p, err)
				}
				files[key] = append(files[key], p)
				rows[key] += len(rs)
			}
			sort.Strings(files[key])
		}
	}
	return files, rows, nil
}

// storedFiles lists, per "db/measurement", the Parquet files that are actually stored (directory walk).
func storedFiles(store string) (map[string][]string, error) {
	out := map[string][]string{}
	for _, dbn := range databases {
		for _, m := range measurements {
			key := dbn + "/" + m.Name
			err := filepath.WalkDir(filepath.Join(store, dbn, m.Name), func(p string, d os.DirEntry, err error) error {
				if err != nil {
					return err
				}
				if !d.IsDir() && strings.HasSuffix(p, ".parquet") {
					out[key] = append(out[key], p)
				}
				return nil
			})
			if err != nil {
				return nil, err
			}
			sort.Strings(out[key])
		}
	}
	return out, nil
}

func viewSelect(files []string) string {
	var q []string
	for _, f := range files {
		q = append(q, "'"+f+"'")
	}
	return "SELECT * FROM read_parquet([" + strings.Join(q, ", ") + "], union_by_name=true)"
}

// newOracle opens a PLAIN DuckDB in which every measurement is a view over exactly its stored files.
// header == "": unqualified names are the measurements of database "default" (Arc's rule), and both
// databases are also reachable as schemas ("default".cpu, prod.cpu). header == "<db>": unqualified names are
// the measurements of <db>; nothing else exists.
func newOracle(files map[string][]string, header string) (*sql.DB, error) {
	db, err := sql.Open("duckdb", "")
	if err != nil {
		return nil, err
	}
	db.SetMaxOpenConns(1)
	stmts := []string{"SET threads=1"}
	mainDB := header
	if header == "" {
		mainDB = "default"
		for _, dbn := range databases {
			stmts = append(stmts, `CREATE SCHEMA "`+dbn+`"`)
			for _, m := range measurements {
				stmts = append(stmts, `CREATE VIEW "`+dbn+`"."`+m.Name+`" AS `+viewSelect(files[dbn+"/"+m.Name]))
			}
		}
	}
	for _, m := range measurements {
		stmts = append(stmts, `CREATE VIEW "`+m.Name+`" AS `+viewSelect(files[mainDB+"/"+m.Name]))
	}
	for _, s := range stmts {
		if _, err := db.Exec(s); err != nil {
			db.Close()
			return nil, fmt.Errorf("%s: %w", s, err)
		}
	}
	return db, nil
}
