package main

import (
	"bytes"
	"context"
	"database/sql"
	"encoding/json"
	"fmt"
	"io"
	"math/big"
	"net/http/httptest"
	"os"
	"path/filepath"
	"regexp"
	"sort"
	"strconv"
	"strings"
	"time"

	"github.com/basekick-labs/arc/internal/api"
	"github.com/basekick-labs/arc/internal/database"
	"github.com/basekick-labs/arc/internal/storage"
	"github.com/basekick-labs/arc/zzverif/engine/ev"
	"github.com/gofiber/fiber/v2"
	"github.com/rs/zerolog"
)

// ---- one worker: the real query handler on a real LocalBackend + real database.DuckDB, and the oracles ----

type worker struct {
	store   string
	tmp     string
	arcdb   *database.DuckDB
	handler *api.QueryHandler
	app     *fiber.App
	oracle  map[string]*sql.DB // header -> plain DuckDB with views
	files   map[string][]string
	execs   int64
}

var scratch string // removed on exit by the process that created it

func cleanup() {
	if scratch != "" {
		os.RemoveAll(scratch)
	}
}

func must(err error, what string) {
	if err != nil {
		cleanup()
		ev.Unbound(what + ": " + err.Error())
	}
}

var headers = []string{"", "prod", "default"}

func newWorker(store, tmp string) *worker {
	w := &worker{store: store, tmp: tmp, oracle: map[string]*sql.DB{}}
	must(os.MkdirAll(tmp, 0o755), "mkdir")
	lg := zerolog.Nop()
	be, err := storage.NewLocalBackend(store, lg)
	must(err, "storage.NewLocalBackend")
	var db *database.DuckDB
	for attempt := 0; attempt < 6; attempt++ { // database.New has internal start-up timeouts that a loaded machine can exceed
		db, err = database.New(&database.Config{
			MaxConnections:         2,
			MemoryLimit:            "512MB",
			ThreadCount:            1,
			PreserveInsertionOrder: true,
			TempDirectory:          filepath.Join(tmp, "spill"),
			UploadDir:              filepath.Join(tmp, "upload"),
			LocalStorageRoot:       be.GetBasePath(),
		}, lg)
		if err == nil || !(strings.Contains(err.Error(), "deadline exceeded") || strings.Contains(err.Error(), "Interrupted")) {
			break
		}
		time.Sleep(time.Duration(attempt+1) * time.Second)
	}
	must(err, "database.New")
	w.arcdb = db
	w.files, err = storedFiles(store)
	must(err, "list stored files")
	for _, h := range headers {
		w.oracle[h], err = newOracle(w.files, h)
		must(err, "oracle duckdb")
	}
	w.freshHandler()
	return w
}

// freshHandler installs a new QueryHandler (empty transform cache) on a new fiber app.
func (w *worker) freshHandler() {
	w.handler = api.NewQueryHandler(w.arcdb, mustBackend(w.store), zerolog.Nop(), 60, 0)
	w.app = fiber.New(fiber.Config{DisableStartupMessage: true})
	w.handler.RegisterRoutes(w.app)
}

func mustBackend(store string) storage.Backend {
	be, err := storage.NewLocalBackend(store, zerolog.Nop())
	must(err, "storage.NewLocalBackend")
	return be
}

func (w *worker) close() {
	w.arcdb.Close()
	for _, o := range w.oracle {
		o.Close()
	}
}

// ---- results ---------------------------------------------------------------------------------

// answer is what one side said: an error, or columns + canonical rows in the order returned.
type answer struct {
	OK     bool     `json:"ok"`
	Status int      `json:"http,omitempty"` // Arc only
	Err    string   `json:"error,omitempty"`
	Cols   []string `json:"columns,omitempty"`
	Rows   []string `json:"rows,omitempty"`
	Count  int      `json:"row_count"`
}

func canonNum(f float64) string { return strconv.FormatFloat(f, 'g', -1, 64) }

// canonCell maps a value of either side into one text space: numbers by value (Arc's JSON cannot tell 3
// from 3.0; encoding fidelity is C19's business), timestamps as RFC3339Nano UTC text, NULL as NULL.
func canonCell(v any) string {
	switch x := v.(type) {
	case nil:
		return "NULL"
	case json.Number:
		f, err := strconv.ParseFloat(string(x), 64)
		if err != nil {
			return "n:" + string(x)
		}
		return "n:" + canonNum(f)
	case bool:
		return "b:" + strconv.FormatBool(x)
	case string:
		return "s:" + x
	case []byte:
		return "s:" + string(x)
	case time.Time:
		return "s:" + x.UTC().Format(time.RFC3339Nano)
	case int:
		return "n:" + canonNum(float64(x))
	case int8:
		return "n:" + canonNum(float64(x))
	case int16:
		return "n:" + canonNum(float64(x))
	case int32:
		return "n:" + canonNum(float64(x))
	case int64:
		return "n:" + canonNum(float64(x))
	case uint8:
		return "n:" + canonNum(float64(x))
	case uint16:
		return "n:" + canonNum(float64(x))
	case uint32:
		return "n:" + canonNum(float64(x))
	case uint64:
		return "n:" + canonNum(float64(x))
	case float32:
		return "n:" + canonNum(float64(x))
	case float64:
		return "n:" + canonNum(x)
	case *big.Int:
		f, _ := new(big.Float).SetInt(x).Float64()
		return "n:" + canonNum(f)
	}
	return fmt.Sprintf("?%T:%v", v, v)
}

func (w *worker) askOracle(sqlText, header string) *answer {
	return w.askOracleTimeout(sqlText, header, 0)
}

// askOracleTimeout: timeout > 0 bounds the execution (the minimiser's candidates can be non-terminating, e.g. a
// recursive CTE that lost its stop condition); a timed-out query is reported as Err "timeout".
func (w *worker) askOracleTimeout(sqlText, header string, timeout time.Duration) *answer {
	w.execs++
	ctx := context.Background()
	if timeout > 0 {
		var cancel context.CancelFunc
		ctx, cancel = context.WithTimeout(ctx, timeout)
		defer cancel()
	}
	rows, err := w.oracle[header].QueryContext(ctx, sqlText)
	if err != nil {
		if ctx.Err() != nil {
			return &answer{Err: "timeout"}
		}
		return &answer{Err: err.Error()}
	}
	defer rows.Close()
	a := &answer{OK: true}
	a.Cols, _ = rows.Columns()
	for rows.Next() {
		vals := make([]any, len(a.Cols))
		ptrs := make([]any, len(a.Cols))
		for i := range vals {
			ptrs[i] = &vals[i]
		}
		if err := rows.Scan(ptrs...); err != nil {
			return &answer{Err: err.Error()}
		}
		cells := make([]string, len(vals))
		for i, v := range vals {
			cells[i] = canonCell(v)
		}
		a.Rows = append(a.Rows, strings.Join(cells, " | "))
	}
	if err := rows.Err(); err != nil {
		if ctx.Err() != nil {
			return &answer{Err: "timeout"}
		}
		return &answer{Err: err.Error()}
	}
	a.Count = len(a.Rows)
	return a
}

func (w *worker) askArc(sqlText, header string) *answer {
	w.execs++
	body, _ := json.Marshal(map[string]string{"sql": sqlText})
	req := httptest.NewRequest("POST", "/api/v1/query", bytes.NewReader(body))
	req.Header.Set("Content-Type", "application/json")
	if header != "" {
		req.Header.Set("x-arc-database", header)
	}
	resp, err := w.app.Test(req, -1)
	if err != nil {
		return &answer{Err: "transport: " + err.Error()}
	}
	defer resp.Body.Close()
	raw, _ := io.ReadAll(resp.Body)
	var r struct {
		Success  *bool    `json:"success"`
		Columns  []string `json:"columns"`
		Data     [][]any  `json:"data"`
		RowCount *int     `json:"row_count"`
		Error    string   `json:"error"`
	}
	dec := json.NewDecoder(bytes.NewReader(raw))
	dec.UseNumber()
	if err := dec.Decode(&r); err != nil {
		return &answer{Status: resp.StatusCode, Err: "undecodable response: " + trunc(string(raw), 200)}
	}
	if resp.StatusCode != 200 || r.Success == nil || !*r.Success {
		e := r.Error
		if e == "" {
			e = trunc(string(raw), 200)
		}
		return &answer{Status: resp.StatusCode, Err: e}
	}
	a := &answer{OK: true, Status: 200, Cols: r.Columns}
	for _, row := range r.Data {
		cells := make([]string, len(row))
		for i, v := range row {
			cells[i] = canonCell(v)
		}
		a.Rows = append(a.Rows, strings.Join(cells, " | "))
	}
	a.Count = -1
	if r.RowCount != nil {
		a.Count = *r.RowCount
	}
	return a
}

func trunc(s string, n int) string {
	if len(s) > n {
		return s[:n] + "…"
	}
	return s
}

// ---- the oracle: same rows (multiset; in order when the query orders completely) or both fail ------

var pathNoise = regexp.MustCompile(`/dev/shm/verif\.c16\.[0-9]+`)

// errClass is a stable class of an error text: the DuckDB error category (for catalog errors also the kind of
// the missing object, never its name), with scratch paths removed. Used in signatures (never the raw text, which carries positions and paths).
func errClass(status int, e string) string {
	e = pathNoise.ReplaceAllString(e, "<store>")
	cls := "error"
	for _, c := range []string{"Parser Error", "Binder Error", "Catalog Error", "IO Error", "Conversion Error", "Invalid Input Error", "Not implemented Error", "Permission Error", "Out of Range Error", "Internal Error",
		"Cross-database queries", "String literal not allowed in table position", "Quoted identifier in table position", "File I/O function not allowed", "Dangerous SQL operation", "Multiple SQL statements"} {
		if strings.Contains(e, c) {
			cls = c
			break
		}
	}
	if cls == "Catalog Error" {
		if m := regexp.MustCompile(`(Table|Schema|Catalog|Scalar Function|Table Function) with name "?([^ "!]+)"? does not exist`).FindStringSubmatch(e); m != nil {
			cls += ": " + m[1] + " does not exist"
		}
	}
	if status != 0 {
		return fmt.Sprintf("http%d %s", status, cls)
	}
	return cls
}

func multisetDiff(a, b []string) (onlyA, onlyB []string) {
	cnt := map[string]int{}
	for _, s := range a {
		cnt[s]++
	}
	for _, s := range b {
		if cnt[s] > 0 {
			cnt[s]--
		} else {
			onlyB = append(onlyB, s)
		}
	}
	for _, s := range a {
		if cnt[s] > 0 {
			cnt[s]--
			onlyA = append(onlyA, s)
		}
	}
	sort.Strings(onlyA)
	sort.Strings(onlyB)
	return
}

// compare returns "" when the two answers agree, else (kind, detail). kind is stable (no row values).
func compare(o, a *answer, ordered bool) (string, string) {
	switch {
	case !o.OK && !a.OK:
		return "", ""
	case o.OK && !a.OK:
		if a.Status == 400 {
			return "arc-rejects:" + errClass(a.Status, a.Err), "DuckDB answers " + fmt.Sprint(o.Count) + " rows; Arc rejects the query: " + trunc(pathNoise.ReplaceAllString(a.Err, "<store>"), 300)
		}
		return "arc-fails:" + errClass(a.Status, a.Err), "DuckDB answers " + fmt.Sprint(o.Count) + " rows; Arc fails: " + trunc(pathNoise.ReplaceAllString(a.Err, "<store>"), 300)
	case !o.OK && a.OK && len(a.Cols) == 0:
		// Arc's "no files found => empty result" path: some word was taken for a measurement that has no data
		return "arc-answers-empty-without-columns-duckdb-fails:" + errClass(0, o.Err), fmt.Sprintf("Arc answers success with no columns and no rows; DuckDB fails: %s", trunc(pathNoise.ReplaceAllString(o.Err, "<store>"), 300))
	case !o.OK && a.OK:
		return "arc-answers-duckdb-fails:" + errClass(0, o.Err), fmt.Sprintf("Arc answers %d rows; DuckDB fails: %s", len(a.Rows), trunc(pathNoise.ReplaceAllString(o.Err, "<store>"), 300))
	}
	if strings.Join(o.Cols, "\x00") != strings.Join(a.Cols, "\x00") {
		return "columns-differ", fmt.Sprintf("DuckDB columns %q, Arc columns %q", o.Cols, a.Cols)
	}
	if a.Count != len(a.Rows) {
		return "row-count-field", fmt.Sprintf("Arc row_count=%d but data holds %d rows", a.Count, len(a.Rows))
	}
	missing, extra := multisetDiff(o.Rows, a.Rows)
	if len(missing)+len(extra) > 0 {
		kind := "rows-differ:arc-lacks-and-adds"
		if len(extra) == 0 {
			kind = "rows-differ:arc-lacks-rows"
		} else if len(missing) == 0 {
			kind = "rows-differ:arc-adds-rows"
		}
		return kind, fmt.Sprintf("DuckDB %d rows, Arc %d rows; only DuckDB: %s; only Arc: %s", len(o.Rows), len(a.Rows), sampleRows(missing), sampleRows(extra))
	}
	if ordered {
		for i := range o.Rows {
			if o.Rows[i] != a.Rows[i] {
				return "order-differs", fmt.Sprintf("same multiset but row %d is [%s] in DuckDB and [%s] in Arc", i, o.Rows[i], a.Rows[i])
			}
		}
	}
	return "", ""
}

func sampleRows(r []string) string {
	if len(r) > 3 {
		return fmt.Sprintf("%q … (%d)", r[:3], len(r))
	}
	return fmt.Sprintf("%q", r)
}

// verdict of one case: oracle once, Arc twice (first execution = transform cache cold, second = warm).
type verdict struct {
	Kind   string // "" = holds
	Detail string
	Oracle *answer
	Cold   *answer
	Warm   *answer
}

func (w *worker) judge(sqlText, header string, ordered bool) *verdict {
	v := &verdict{}
	v.Oracle = w.askOracle(sqlText, header)
	v.Cold = w.askArc(sqlText, header)
	v.Warm = w.askArc(sqlText, header)
	v.finish(ordered)
	return v
}
