package main

import (
	"os"
	"strings"
)

// ---- query grammar --------------------------------------------------------------------------
//
// A query is a token list; between two tokens sits a gap that is either REQUIRED whitespace (rendered " " by
// default) or a GLUE gap (rendered "" by default: before "," "(" ")" and after "("). Templates are written
// with a single space for a required gap and "~" for a glue gap; quoted runs ('..', "..") are atomic.
//
// Placeholders: {T1} {T2} table references (spelling dimension), {JK} {COND} {BV} join kind / condition /
// visibility of the right side's columns, {SEL} optional literal column at the head of the select list,
// {W:col} / {AND:col} optional literal predicate, {AL} optional alias of the first select expression.

type tmpl struct {
	ID      string
	Text    string
	Ordered bool   // the ORDER BY covers every output column: answers are compared in order
	JKs     string // "", "all" or "sub": which join kinds {JK} ranges over
}

type joinKind struct {
	Words string
	Cond  string // text appended after "{T2} b"
	BVis  bool   // columns of b are visible in the select list
	Sub   bool   // member of the small join-kind set used where {JK} is not the subject of the template
}

const onHost = " ON a.host = b.host"
const asofOn = " ON a.host = b.host AND a.time >= b.time"
const usingHost = " USING~(~host~)"

var joinKinds = []joinKind{
	{"JOIN", onHost, true, true},
	{"INNER JOIN", onHost, true, false},
	{"LEFT JOIN", onHost, true, false},
	{"LEFT OUTER JOIN", onHost, true, true},
	{"RIGHT JOIN", onHost, true, false},
	{"RIGHT OUTER JOIN", onHost, true, false},
	{"FULL JOIN", onHost, true, false},
	{"FULL OUTER JOIN", onHost, true, true},
	{"CROSS JOIN", "", true, true},
	{"NATURAL JOIN", "", true, true},
	{"NATURAL INNER JOIN", "", true, false},
	{"NATURAL LEFT JOIN", "", true, false},
	{"NATURAL LEFT OUTER JOIN", "", true, false},
	{"NATURAL RIGHT JOIN", "", true, false},
	{"NATURAL FULL JOIN", "", true, false},
	{"NATURAL FULL OUTER JOIN", "", true, false},
	{"SEMI JOIN", onHost, false, true},
	{"ANTI JOIN", onHost, false, false},
	{"ASOF JOIN", asofOn, true, true},
	{"ASOF INNER JOIN", asofOn, true, false},
	{"ASOF LEFT JOIN", asofOn, true, false},
	{"ASOF LEFT OUTER JOIN", asofOn, true, false},
	{"ASOF RIGHT JOIN", asofOn, true, false},
	{"ASOF FULL JOIN", asofOn, true, false},
	{"POSITIONAL JOIN", "", true, false},
	{"JOIN", usingHost, true, false},
	{"LEFT JOIN", usingHost, true, false},
	{"FULL OUTER JOIN", usingHost, true, false},
	{"ANTI JOIN", usingHost, false, false},
	{"ASOF JOIN", " USING~(~host~, time~)", true, false},
	// LATERAL spellings with a bare table (Arc's join patterns accept LATERAL on either side of JOIN)
	{"JOIN LATERAL", onHost, true, false},
	{"CROSS JOIN LATERAL", "", true, false},
	{"LEFT JOIN LATERAL", onHost, true, false},
	{"LATERAL JOIN", onHost, true, false},
}

var templates = []tmpl{
	// single table
	{ID: "proj", Text: "SELECT {SEL}host{AL}~, v~, n FROM {T1}{W:host}"},
	{ID: "filter-order", Text: "SELECT {SEL}host{AL}~, v FROM {T1} WHERE n > 1{AND:host} ORDER BY host~, v", Ordered: true},
	{ID: "aggregate", Text: "SELECT {SEL}host{AL}~, COUNT~(~*~) AS c~, SUM~(~v~) AS s~, MIN~(~v~) AS lo~, AVG~(~v~) AS av~, COUNT~(~n~) AS cn FROM {T1}{W:host} GROUP BY host ORDER BY host", Ordered: true},
	{ID: "star", Text: "SELECT {SEL}* FROM {T1}{W:host}"},
	{ID: "distinct-limit", Text: "SELECT DISTINCT host{AL} FROM {T1}{W:host} ORDER BY 1 LIMIT 3", Ordered: true},
	{ID: "as-alias", Text: "SELECT {SEL}a.host{AL}~, a.v FROM {T1} AS a{W:a.host}"},
	{ID: "table-qualified-column", Text: "SELECT cpu.host{AL}~, cpu.v FROM cpu{W:cpu.host}"},
	// set operations
	{ID: "union-all", Text: "SELECT {SEL}host{AL}~, v FROM {T1}{W:host} UNION ALL SELECT {SEL}host~, v FROM {T2}"},
	{ID: "except", Text: "SELECT host{AL}~, n FROM {T1}{W:host} EXCEPT SELECT host~, n FROM {T2}"},
	// joins
	{ID: "join", Text: "SELECT {SEL}a.host{AL}~, a.v{BV} FROM {T1} a {JK} {T2} b{COND}{W:a.host}", JKs: "all"},
	{ID: "join-noalias", Text: "SELECT cpu.host{AL}~, mem.v FROM cpu JOIN mem ON cpu.host = mem.host{W:cpu.host}"},
	{ID: "comma-join", Text: "SELECT {SEL}a.host{AL}~, b.v FROM {T1} a~, {T2} b WHERE a.host = b.host{AND:a.host}"},
	{ID: "lateral-cross", Text: "SELECT {SEL}a.host{AL}~, s.v FROM {T1} a CROSS JOIN LATERAL (~SELECT b.v FROM {T2} b WHERE b.host = a.host~) s{W:a.host}"},
	{ID: "lateral-left", Text: "SELECT {SEL}a.host{AL}~, s.v FROM {T1} a LEFT JOIN LATERAL (~SELECT b.v FROM {T2} b WHERE b.host = a.host~) s ON true{W:a.host}"},
	{ID: "lateral-inner", Text: "SELECT {SEL}a.host{AL}~, s.v FROM {T1} a JOIN LATERAL (~SELECT b.v FROM {T2} b WHERE b.host = a.host~) s ON true{W:a.host}"},
	{ID: "lateral-comma", Text: "SELECT {SEL}a.host{AL}~, s.v FROM {T1} a~, LATERAL (~SELECT b.v FROM {T2} b WHERE b.host = a.host~) s{W:a.host}"},
	// CTEs
	{ID: "cte", Text: "WITH c AS (~SELECT host~, v FROM {T1} WHERE n > 1~) SELECT {SEL}host{AL}~, v FROM c{W:host}"},
	{ID: "cte-join", Text: "WITH c AS (~SELECT host~, v FROM {T1}~) SELECT {SEL}c.host{AL}~, b.v FROM c {JK} {T2} b ON c.host = b.host{W:c.host}", JKs: "sub3"},
	{ID: "cte-two", Text: "WITH c AS (~SELECT host~, v FROM {T1}~)~, d AS (~SELECT host~, v FROM {T2}~) SELECT {SEL}c.host{AL}~, d.v FROM c JOIN d ON c.host = d.host{W:c.host}"},
	{ID: "cte-columns", Text: "WITH c~(~h~, x~) AS (~SELECT host~, v FROM {T1}~) SELECT {SEL}h{AL}~, x FROM c"},
	{ID: "cte-mixedcase-name", Text: "WITH Tmp AS (~SELECT host~, v FROM {T1}~) SELECT {SEL}host{AL}~, v FROM tmp{W:host}"},
	{ID: "cte-quoted-name", Text: "WITH \"c-1\" AS (~SELECT host~, v FROM {T1}~) SELECT {SEL}host{AL}~, v FROM \"c-1\"{W:host}"},
	{ID: "cte-recursive", Text: "WITH RECURSIVE r~(~i~) AS (~SELECT 1 UNION ALL SELECT i + 1 FROM r WHERE i < 3~) SELECT {SEL}r.i{AL}~, a.host FROM r JOIN {T1} a ON a.n = r.i{W:a.host}"},
	// a CTE that shadows a measurement name
	{ID: "cte-shadow-other", Text: "WITH cpu AS (~SELECT host~, v FROM {T2}~) SELECT {SEL}host{AL}~, v FROM cpu{W:host}"},
	{ID: "cte-shadow-self", Text: "WITH cpu AS (~SELECT host~, v FROM cpu WHERE n > 1~) SELECT {SEL}host{AL}~, v FROM cpu{W:host}"},
	{ID: "cte-shadow-join", Text: "WITH mem AS (~SELECT host~, v FROM {T1}~) SELECT {SEL}a.host{AL}~, b.v FROM {T1} a JOIN mem b ON a.host = b.host{W:a.host}"},
	{ID: "cte-shadow-quoted-ref", Text: "WITH cpu AS (~SELECT host~, v FROM {T2}~) SELECT {SEL}host{AL}~, v FROM \"cpu\"{W:host}"},
	// subqueries
	{ID: "from-subquery", Text: "SELECT {SEL}s.host{AL}~, s.v FROM (~SELECT host~, v FROM {T1} WHERE n > 1~) s{W:s.host}"},
	{ID: "from-subquery-join", Text: "SELECT {SEL}s.host{AL}~, b.v FROM (~SELECT host~, v FROM {T1}~) s {JK} {T2} b ON s.host = b.host{W:s.host}", JKs: "sub3"},
	{ID: "where-in", Text: "SELECT {SEL}host{AL}~, v FROM {T1} WHERE host IN (~SELECT host FROM {T2} WHERE v > 1~){AND:host}"},
	{ID: "where-exists", Text: "SELECT {SEL}a.host{AL}~, a.v FROM {T1} a WHERE EXISTS (~SELECT 1 FROM {T2} b WHERE b.host = a.host~){AND:a.host}"},
	{ID: "where-scalar", Text: "SELECT {SEL}host{AL}~, v FROM {T1} WHERE v > (~SELECT MIN~(~v~) FROM {T2}~){AND:host}"},
	{ID: "select-scalar", Text: "SELECT {SEL}host{AL}~, (~SELECT MAX~(~v~) FROM {T2}~) AS m FROM {T1}{W:host}"},
	// FROM keywords inside function bodies
	{ID: "extract", Text: "SELECT {SEL}host{AL}~, EXTRACT~(~hour FROM time~) AS h FROM {T1}{W:host}"},
	{ID: "extract-two", Text: "SELECT {SEL}EXTRACT~(~hour FROM time~){AL}~, EXTRACT~(~minute FROM time~) AS mi~, host FROM {T1}{W:host}"},
	{ID: "extract-where", Text: "SELECT {SEL}host{AL}~, v FROM {T1} WHERE EXTRACT~(~day FROM time~) = 13{AND:host}"},
	{ID: "extract-join", Text: "SELECT {SEL}EXTRACT~(~hour FROM a.time~){AL}~, b.v FROM {T1} a {JK} {T2} b ON a.host = b.host{W:a.host}", JKs: "sub3"},
	{ID: "extract-subquery", Text: "SELECT {SEL}host{AL}~, EXTRACT~(~year FROM (~SELECT MIN~(~time~) FROM {T2}~)~) AS y FROM {T1}{W:host}"},
	{ID: "extract-cast", Text: "SELECT {SEL}EXTRACT~(~hour FROM CAST~(~time AS TIMESTAMP~)~){AL}~, host FROM {T1}{W:host}"},
	{ID: "substring", Text: "SELECT {SEL}SUBSTRING~(~note FROM 2 FOR 1~){AL}~, SUBSTRING~(~note FROM 2~) AS s2~, v FROM {T1}{W:host}"},
	{ID: "trim", Text: "SELECT {SEL}TRIM~(~BOTH 'x' FROM note~){AL}~, TRIM~(~LEADING 'x' FROM note~) AS tl~, TRIM~(~TRAILING FROM note~) AS tt~, TRIM~(~note~) AS tp FROM {T1}{W:host}"},
	{ID: "trim-where-join", Text: "SELECT {SEL}a.note{AL}~, b.v FROM {T1} a JOIN {T2} b ON a.host = b.host WHERE TRIM~(~BOTH 'x' FROM a.note~) = 'a'{AND:a.host}"},
}

// ---- table reference spellings ------------------------------------------------------------------

type spelling struct {
	ID        string
	Text      func(m string) string
	Qualified bool // names a database: only legal without the x-arc-database header
}

var spellings = []spelling{
	{"bare", func(m string) string { return m }, false},
	{"quoted", func(m string) string { return `"` + m + `"` }, false},
	{"db.m", func(m string) string { return "prod." + m }, true},
	{`"default".m`, func(m string) string { return `"default".` + m }, true},
	{`"db"."m"`, func(m string) string { return `"prod"."` + m + `"` }, true},
	{`db."m"`, func(m string) string { return `prod."` + m + `"` }, true},
	{"MixedCase", func(m string) string { return "Disk_IO" }, false},
	{`"MixedCase"`, func(m string) string { return `"Disk_IO"` }, false},
	{"db . m", func(m string) string { return "prod . " + m }, true},
	{"db.MixedCase", func(m string) string { return "prod.Disk_IO" }, true},
}

// ---- literal, alias, identifier and keyword-case decorations ---------------------------------------

var literals = []string{"", "'a'", "'read_parquet'", "'from'", "' from mem '", "'it''s'", "'--'", "'/*'", "'join cpu'", "';'", "'FROM \"x\"'"}

const (
	litNone = iota
	litSelect
	litWhere
)

var aliases = []string{"", "h1", "Hx", `"H x"`, `"from"`, "valid_from", `"join"`}

const (
	colPlain = iota
	colQuoted
	colMixed
)

const (
	kwUpper = iota
	kwLower
	kwMixed
)

type opts struct {
	JK     int
	T1, T2 int
	Lit    int
	LitPos int
	Alias  int
	Col    int
	Kw     int
}

// query is one rendered candidate: tokens, the kind of every gap and its current text.
type query struct {
	Toks    []string `json:"toks"`
	Glue    []bool   `json:"glue"` // Glue[i]: the gap before token i may be empty
	Gaps    []string `json:"gaps"` // Gaps[i]: text before token i (Gaps[0] == "")
	Hdr     string   `json:"hdr"`
	Ordered bool     `json:"ordered"`
	Fam     string   `json:"fam"`
	Tmpl    string   `json:"tmpl"`
}

func (q *query) SQL() string {
	var b strings.Builder
	for i, t := range q.Toks {
		b.WriteString(q.Gaps[i])
		b.WriteString(t)
	}
	return b.String()
}

func defaultGap(glue bool) string {
	if glue {
		return ""
	}
	return " "
}

func defaultGaps(glue []bool) []string {
	g := make([]string, len(glue))
	for i := range glue {
		if i > 0 && !glue[i] {
			g[i] = " "
		}
	}
	return g
}

func (q *query) clone() *query {
	c := *q
	c.Toks = append([]string{}, q.Toks...)
	c.Glue = append([]bool{}, q.Glue...)
	c.Gaps = append([]string{}, q.Gaps...)
	return &c
}

func jkSet(name string) []int {
	var out []int
	for i, k := range joinKinds {
		switch name {
		case "all":
			out = append(out, i)
		case "sub":
			if k.Sub {
				out = append(out, i)
			}
		case "sub3":
			if k.Words == "JOIN" && k.Cond == onHost || k.Words == "LEFT OUTER JOIN" || k.Words == "FULL OUTER JOIN" && k.Cond == onHost {
				out = append(out, i)
			}
		}
	}
	return out
}

// tokenize splits the expanded template text at " " (required gap) and "~" (glue gap); quoted runs are atomic.
func tokenize(s string) (toks []string, glue []bool) {
	var cur strings.Builder
	nextGlue := false
	flush := func(g bool) {
		if cur.Len() > 0 {
			toks = append(toks, cur.String())
			glue = append(glue, nextGlue)
			cur.Reset()
			nextGlue = g
		} else if g {
			nextGlue = true // "~ " or " ~": glue wins only when written right before the token
		} else {
			nextGlue = false
		}
	}
	for i := 0; i < len(s); i++ {
		c := s[i]
		switch {
		case c == '\'' || c == '"':
			j := i + 1
			for j < len(s) {
				if s[j] == c {
					if j+1 < len(s) && s[j+1] == c {
						j += 2
						continue
					}
					break
				}
				j++
			}
			cur.WriteString(s[i : j+1])
			i = j
		case c == ' ':
			flush(false)
		case c == '~':
			flush(true)
		default:
			cur.WriteByte(c)
		}
	}
	flush(false)
	if len(glue) > 0 {
		glue[0] = true
	}
	return
}

func isKeyword(t string) bool {
	if len(t) < 2 {
		return false
	}
	for i := 0; i < len(t); i++ {
		if !(t[i] >= 'A' && t[i] <= 'Z' || t[i] == '_') {
			return false
		}
	}
	return true
}

func mixCase(t string) string {
	b := []byte(strings.ToLower(t))
	for i := 0; i < len(b); i += 2 {
		if b[i] >= 'a' && b[i] <= 'z' {
			b[i] -= 32
		}
	}
	return string(b)
}

// build expands a template under the given options; ok=false when an option does not apply to the template
// (the combination is then not a member of the product).
func build(t *tmpl, o opts) (*query, bool) {
	s := t.Text
	has := func(m string) bool { return strings.Contains(s, m) }
	if o.JK != 0 && !has("{JK}") {
		return nil, false
	}
	if has("{JK}") {
		k := joinKinds[o.JK]
		s = strings.ReplaceAll(s, "{JK}", k.Words)
		s = strings.ReplaceAll(s, "{COND}", k.Cond)
		bv := ""
		if k.BVis {
			bv = "~, b.v"
		}
		s = strings.ReplaceAll(s, "{BV}", bv)
	}
	if (o.T1 != 0 && !has("{T1}")) || (o.T2 != 0 && !has("{T2}")) {
		return nil, false
	}
	s = strings.ReplaceAll(s, "{T1}", spellings[o.T1].Text("cpu"))
	s = strings.ReplaceAll(s, "{T2}", spellings[o.T2].Text("mem"))
	lit := literals[o.Lit]
	if (o.Lit == 0) != (o.LitPos == litNone) {
		return nil, false
	}
	switch o.LitPos {
	case litSelect:
		if !has("{SEL}") {
			return nil, false
		}
	case litWhere:
		if !has("{W:") && !has("{AND:") {
			return nil, false
		}
	}
	sel := ""
	if o.LitPos == litSelect {
		sel = lit + " AS lit~, "
	}
	s = strings.ReplaceAll(s, "{SEL}", sel)
	for _, m := range []struct{ open, word string }{{"{W:", " WHERE "}, {"{AND:", " AND "}} {
		for {
			i := strings.Index(s, m.open)
			if i < 0 {
				break
			}
			j := i + strings.Index(s[i:], "}")
			col := s[i+len(m.open) : j]
			rep := ""
			if o.LitPos == litWhere {
				rep = m.word + col + " <> " + lit
			}
			s = s[:i] + rep + s[j+1:]
		}
	}
	if o.Alias != 0 && !has("{AL}") {
		return nil, false
	}
	al := ""
	if o.Alias != 0 {
		al = " AS " + aliases[o.Alias]
	}
	s = strings.ReplaceAll(s, "{AL}", al)
	toks, glue := tokenize(s)
	if o.Col != colPlain {
		changed := false
		for i, tk := range toks {
			pre, name := "", tk
			if j := strings.LastIndex(tk, "."); j >= 0 {
				pre, name = tk[:j+1], tk[j+1:]
			}
			if name == "host" || name == "v" {
				if o.Col == colQuoted {
					toks[i] = pre + `"` + name + `"`
				} else {
					toks[i] = pre + strings.ToUpper(name[:1]) + name[1:]
				}
				changed = true
			}
		}
		if !changed {
			return nil, false
		}
	}
	if o.Kw != kwUpper {
		for i, tk := range toks {
			if isKeyword(tk) {
				if o.Kw == kwLower {
					toks[i] = strings.ToLower(tk)
				} else {
					toks[i] = mixCase(tk)
				}
			}
		}
	}
	return &query{Toks: toks, Glue: glue, Gaps: defaultGaps(glue), Ordered: t.Ordered, Tmpl: t.ID}, true
}

func (o opts) qualified() bool { return spellings[o.T1].Qualified || spellings[o.T2].Qualified }

// ---- gap styles -----------------------------------------------------------------------------------

var gapStylesThorough = []string{"\n", "/*c*/", "--c\n", "/* from x */", "\t", "  ", "\r\n", "\f", " /* c */ ", " -- c\n", "-- join y\n", "/*/*n*/*/", "/* ' */", "\n\t "}
var gapStylesUniformSmall = []string{"\n", "/*c*/", "--c\n", "/* ' */"}

// sepVariants calls emit for the base query and for every separator variant: each single gap set to each
// style (all others default), all required gaps set to a style, and all gaps (required and glue) set to it.
func sepVariants(base *query, styles []string, perGap bool, emit func(*query)) {
	emit(base)
	for _, st := range styles {
		u := base.clone()
		for i := 1; i < len(u.Gaps); i++ {
			if !u.Glue[i] {
				u.Gaps[i] = st
			}
		}
		emit(u)
		a := base.clone()
		for i := 1; i < len(a.Gaps); i++ {
			a.Gaps[i] = st
		}
		emit(a)
	}
	if !perGap {
		return
	}
	for i := 1; i < len(base.Gaps); i++ {
		for _, st := range styles {
			c := base.clone()
			c.Gaps[i] = st
			emit(c)
		}
	}
}

// ---- the enumeration: a union of four full products ---------------------------------------------------

type famInfo struct {
	Name string
	Desc string
}

var families = []famInfo{
	{"separators", "every template x every join kind (default spelling, no decoration) x {default; every single gap set to every gap style; all required gaps set to a style; all gaps set to a style} x header {none, prod}"},
	{"spellings", "every template (join kinds: small set) x T1 spelling x T2 spelling (full product of 10 x 10 spellings: bare, quoted, db.m, \"default\".m, \"db\".\"m\", db.\"m\", MixedCase, \"MixedCase\", db . m, db.MixedCase) x uniform gap styles x header {none; prod when no reference names a database}"},
	{"literals", "every template (join kinds: small set) x string literal {'a','read_parquet','from',' from mem ','it''s','--','/*','join cpu',';','FROM \"x\"'} x position {select list, WHERE conjunct} x uniform gap styles x header"},
	{"cross", "(thorough only) every template (join kinds: small set) x {both tables quoted, db.m, \"db\".\"m\", \"MixedCase\"; literal 'read_parquet','from','it''s','--' in the select list or as WHERE conjunct} x {every single gap set to newline, /*c*/, --c<newline>; uniform} x header"},
	{"identifiers", "every template (join kinds: small set) x alias of the first select expression {none,h1,Hx,\"H x\",\"from\",valid_from,\"join\"} x column reference style {plain, quoted, Mixed} x keyword case {UPPER, lower, MiXeD} x uniform gap styles x header"},
}

// enumerate calls emit for every (query, header) of the tier exactly once (duplicates across families are
// dropped), in a fixed order.
func enumerate(quick bool, emit func(*query)) {
	seen := map[string]bool{}
	filter := os.Getenv("VERIF_C16_FILTER") // development aid: restrict to one family or template
	out := func(fam string, hdrs []string) func(*query) {
		return func(q *query) {
			if filter != "" && fam != filter && q.Tmpl != filter {
				return
			}
			sql := q.SQL()
			for _, h := range hdrs {
				k := h + "\x00" + sql
				if seen[k] {
					continue
				}
				seen[k] = true
				c := q.clone()
				c.Hdr, c.Fam = h, fam
				emit(c)
			}
		}
	}
	hdrFor := func(o opts) []string {
		if o.qualified() {
			return []string{""}
		}
		return []string{"", "prod"}
	}
	if quick {
		enumerateQuick(out, hdrFor)
		return
	}
	styles := gapStylesThorough
	uniform := gapStylesUniformSmall
	// 1. separators
	for ti := range templates {
		t := &templates[ti]
		jks := []int{0}
		if t.JKs != "" {
			jks = jkSet(t.JKs)
		}
		for _, jk := range jks {
			o := opts{JK: jk}
			if q, ok := build(t, o); ok {
				sepVariants(q, styles, true, out("separators", hdrFor(o)))
			}
		}
	}
	small := func(t *tmpl) []int {
		switch t.JKs {
		case "":
			return []int{0}
		case "all":
			return jkSet("sub")
		}
		return jkSet(t.JKs)
	}
	// 2. spellings
	for ti := range templates {
		t := &templates[ti]
		for _, jk := range small(t) {
			for t1 := range spellings {
				for t2 := range spellings {
					o := opts{JK: jk, T1: t1, T2: t2}
					if q, ok := build(t, o); ok {
						sepVariants(q, uniform, false, out("spellings", hdrFor(o)))
					}
				}
			}
		}
	}
	// 3. literals
	for ti := range templates {
		t := &templates[ti]
		for _, jk := range small(t) {
			for l := 1; l < len(literals); l++ {
				for _, pos := range []int{litSelect, litWhere} {
					o := opts{JK: jk, Lit: l, LitPos: pos}
					if q, ok := build(t, o); ok {
						sepVariants(q, uniform, false, out("literals", hdrFor(o)))
					}
				}
			}
		}
	}
	// 5. cross: decorated queries x every single gap
	{
		cross := []string{"\n", "/*c*/", "--c\n"}
		for ti := range templates {
			t := &templates[ti]
			for _, jk := range small(t) {
				for _, sp := range []int{1, 2, 4, 7} { // quoted, db.m, "db"."m", "MixedCase": both tables spelled alike
					o := opts{JK: jk, T1: sp, T2: sp}
					if !strings.Contains(t.Text, "{T2}") {
						o.T2 = 0
					}
					if q, ok := build(t, o); ok {
						sepVariants(q, cross, true, out("cross", hdrFor(o)))
					}
				}
				for _, l := range []int{2, 3, 5, 6} { // 'read_parquet', 'from', 'it''s', '--'
					for _, pos := range []int{litSelect, litWhere} {
						o := opts{JK: jk, Lit: l, LitPos: pos}
						if q, ok := build(t, o); ok {
							sepVariants(q, cross, true, out("cross", hdrFor(o)))
						}
					}
				}
			}
		}
	}
	// 4. identifiers
	for ti := range templates {
		t := &templates[ti]
		for _, jk := range small(t) {
			for al := range aliases {
				for col := colPlain; col <= colMixed; col++ {
					for kw := kwUpper; kw <= kwMixed; kw++ {
						o := opts{JK: jk, Alias: al, Col: col, Kw: kw}
						if q, ok := build(t, o); ok {
							u := uniform
							if len(u) > 1 {
								u = u[:1]
							}
							sepVariants(q, u, false, out("identifiers", hdrFor(o)))
						}
					}
				}
			}
		}
	}
}

// ---- the quick tier: a stated sub-product of the above ------------------------------------------------

// quickTemplates: one or two representatives of every template group, used by the quick tier wherever a
// decoration (spelling, literal, identifier) and not the template is the subject.
var quickTemplates = map[string]bool{"proj": true, "filter-order": true, "aggregate": true, "join": true, "comma-join": true, "lateral-cross": true,
	"cte": true, "cte-shadow-other": true, "from-subquery": true, "where-in": true, "extract": true, "trim": true}

var quickSpellingTemplates = map[string]bool{"proj": true, "join": true, "comma-join": true, "cte": true, "where-in": true, "extract": true}

// refAdjacent: the quick tier sets a single gap to a newline only next to the words that introduce or join table
// references (the thorough tier does it for every gap).
var refAdjacent = map[string]bool{"FROM": true, "JOIN": true, "LATERAL": true, "WITH": true, "RECURSIVE": true, "LEFT": true, "RIGHT": true, "FULL": true,
	"INNER": true, "OUTER": true, "CROSS": true, "NATURAL": true, "SEMI": true, "ANTI": true, "ASOF": true, "POSITIONAL": true}

var quickUniform = []string{"\n", "/*c*/", "--c\n"}

var quickFamilies = []famInfo{
	{"separators", "every template x every join kind, default spelling, no decoration: default rendering, all required gaps = newline; for every template and the small join-kind set also all required gaps and all gaps = {newline, /*c*/, --c<newline>}, each x header {none, prod}; every single gap next to FROM / JOIN / a join modifier / LATERAL / WITH / RECURSIVE = newline x header prod; the gap between EXTRACT/TRIM/SUBSTRING and its parenthesis = {form feed, nested block comment} x header {none, prod}"},
	{"spellings", "templates {proj, join (JOIN), comma-join, cte, where-in, extract} x T1 spelling (all 10) x T2 spelling {bare, quoted, db.m, MixedCase}, default gaps x header {none; prod when no reference names a database}"},
	{"literals", "12 representative templates x literal {'a','read_parquet','from',' from mem ','it''s','--'} x position {select list, WHERE conjunct}, default gaps x header {none, prod}"},
	{"identifiers", "12 representative templates x (alias {h1,Hx,\"H x\",\"from\",valid_from,\"join\"} | column reference style {quoted, Mixed} | keyword case {lower, MiXeD}), one dimension at a time, default gaps x header {none, prod}"},
}

func enumerateQuick(out func(fam string, hdrs []string) func(*query), hdrFor func(opts) []string) {
	firstSmall := func(t *tmpl) []int {
		switch t.JKs {
		case "":
			return []int{0}
		case "all":
			return jkSet("sub")[:1]
		}
		return jkSet(t.JKs)[:1]
	}
	// 1. separators
	for ti := range templates {
		t := &templates[ti]
		jks := []int{0}
		if t.JKs != "" {
			jks = jkSet(t.JKs)
		}
		for _, jk := range jks {
			o := opts{JK: jk}
			q, ok := build(t, o)
			if !ok {
				continue
			}
			both := out("separators", hdrFor(o))
			prod := out("separators", []string{"prod"})
			both(q)
			styles := quickUniform
			sub := t.JKs != "all" || joinKinds[jk].Sub
			if !sub {
				styles = styles[:1]
			}
			for _, st := range styles {
				u := q.clone()
				for i := 1; i < len(u.Gaps); i++ {
					if !u.Glue[i] {
						u.Gaps[i] = st
					}
				}
				both(u)
				if !sub {
					continue
				}
				a := q.clone()
				for i := 1; i < len(a.Gaps); i++ {
					a.Gaps[i] = st
				}
				both(a)
			}
			if !sub {
				continue
			}
			for i := 1; i < len(q.Gaps); i++ {
				if !refAdjacent[q.Toks[i]] && !refAdjacent[q.Toks[i-1]] {
					continue
				}
				c := q.clone()
				c.Gaps[i] = "\n"
				prod(c)
			}
			for i := 1; i < len(q.Toks); i++ {
				if q.Toks[i] != "(" {
					continue
				}
				switch q.Toks[i-1] {
				case "EXTRACT", "TRIM", "SUBSTRING":
					for _, st := range []string{"\f", "/*/*n*/*/"} {
						c := q.clone()
						c.Gaps[i] = st
						both(c)
					}
				}
			}
		}
	}
	// 2. spellings
	for ti := range templates {
		t := &templates[ti]
		if !quickSpellingTemplates[t.ID] {
			continue
		}
		for _, jk := range firstSmall(t) {
			for t1 := range spellings {
				for _, t2 := range []int{0, 1, 2, 6} {
					o := opts{JK: jk, T1: t1, T2: t2}
					if q, ok := build(t, o); ok {
						out("spellings", hdrFor(o))(q)
					}
				}
			}
		}
	}
	// 3. literals
	for ti := range templates {
		t := &templates[ti]
		if !quickTemplates[t.ID] {
			continue
		}
		for _, jk := range firstSmall(t) {
			for l := 1; l <= 6; l++ {
				for _, pos := range []int{litSelect, litWhere} {
					o := opts{JK: jk, Lit: l, LitPos: pos}
					if q, ok := build(t, o); ok {
						out("literals", hdrFor(o))(q)
					}
				}
			}
		}
	}
	// 4. identifiers
	for ti := range templates {
		t := &templates[ti]
		if !quickTemplates[t.ID] {
			continue
		}
		for _, jk := range firstSmall(t) {
			var os []opts
			for al := 1; al < len(aliases); al++ {
				os = append(os, opts{JK: jk, Alias: al})
			}
			os = append(os, opts{JK: jk, Col: colQuoted}, opts{JK: jk, Col: colMixed}, opts{JK: jk, Kw: kwLower}, opts{JK: jk, Kw: kwMixed})
			for _, o := range os {
				if q, ok := build(t, o); ok {
					out("identifiers", hdrFor(o))(q)
				}
			}
		}
	}
}
