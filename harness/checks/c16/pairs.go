package main

import (
	"os"
	"strings"

	"github.com/basekick-labs/arc/zzverif/engine/ev"
)

// ---- the SEQUENCE dimension -------------------------------------------------------------------------
//
// Class under test: "a warm transform/plan cache entry created by statement A is (wrongly) reused for a
// different statement B". For every base statement a family of NEAR-COLLISION variants is built: the base and
// every single deviation from it (letter case / trailing blank / trailing character / content of a string
// literal, number vs string literal, keyword case, identifier case, quoted vs unquoted identifier, case of a
// quoted or bare alias, header database, a comment added or changed, extra whitespace, a trailing semicolon,
// another measurement). For EVERY ORDERED PAIR (A, B) of one family: empty the caches through the handler's own
// InvalidateCaches, request A, then request B on the same handler; B's answer must equal plain DuckDB's answer
// to B. Both orders occur because the pairs are ordered. The fixtures hold values that differ only in the ways
// the literals do, and DuckDB keeps the letter case of output names, so the answers to A and B differ whenever
// the deviation is semantic.

type seqBase struct {
	ID    string
	Text  string
	Hdrs  []string // one family per header value (the variants of a family share it, except the header deviations)
	Quick bool
}

var seqBases = []seqBase{
	{"where-literal", "SELECT host~, v FROM cpu WHERE host = 'Web-A'", []string{"prod", ""}, true},
	{"select-literal-alias", `SELECT 'Web-A' AS "Tag"~, host~, 1 AS k FROM cpu WHERE v > 20`, []string{"", "prod"}, true},
	{"join-literal", "SELECT a.host~, b.v FROM cpu a JOIN mem b ON a.host = b.host WHERE a.host = 'Web-A'", []string{"prod", ""}, true},
	{"cte-literal", "WITH c AS (~SELECT host~, v FROM cpu WHERE host = 'Web-A'~) SELECT host~, v FROM c", []string{"", "prod"}, true},
	{"subquery-literal", "SELECT host~, v FROM cpu WHERE host IN (~SELECT host FROM mem WHERE note = 'Web-A'~)", []string{"prod", ""}, false},
	{"db-qualified-literal", "SELECT host~, v FROM prod.cpu WHERE host = 'Web-A'", []string{""}, false},
	{"header-fast-path", "SELECT host~, v FROM cpu WHERE v > 20", []string{"prod", "default"}, false},
}

type variant struct {
	Q     *query
	Label string
}

// seqPair: request A, then B; B is judged.
type seqPair struct {
	A    *query `json:"a"`
	B    *query `json:"b"`
	Base string `json:"base"`
	Hdr  string `json:"family_header"`
	LabA string `json:"lab_a"`
	LabB string `json:"lab_b"`
}

var seqHeaders = []string{"", "prod", "default"}

// seqVariants: the base (under header hdr) and every single deviation from it, in a fixed order. All variants
// keep the token positions of the base (deviations replace a token, a gap or the header), which is what lets
// a failing pair be minimised position by position.
func seqVariants(b *seqBase, hdr string, quick bool) []variant {
	toks, glue := tokenize(b.Text)
	base := &query{Toks: toks, Glue: glue, Gaps: defaultGaps(glue), Hdr: hdr, Fam: "sequences", Tmpl: b.ID}
	out := []variant{{base, "base"}}
	seen := map[string]bool{hdr + "\x00" + base.SQL(): true}
	add := func(label string, thoroughOnly bool, mod func(q *query) bool) {
		if quick && thoroughOnly {
			return
		}
		c := base.clone()
		if !mod(c) {
			return
		}
		k := c.Hdr + "\x00" + c.SQL()
		if seen[k] {
			return
		}
		seen[k] = true
		out = append(out, variant{c, label})
	}
	replaceTok := func(from string, to func(string) string) func(q *query) bool {
		return func(q *query) bool {
			hit := false
			for i, t := range q.Toks {
				if t == from {
					q.Toks[i] = to(t)
					hit = true
				}
			}
			return hit
		}
	}
	lit := func(to string) func(q *query) bool {
		return replaceTok("'Web-A'", func(string) string { return to })
	}
	add("literal-case", false, lit("'web-a'"))
	add("literal-case", false, lit("'WEB-A'"))
	add("literal-trailing-blank", false, lit("'web-a '"))
	add("literal-trailing-blank", true, lit("'Web-A '"))
	add("literal-trailing-char", false, lit("'web-ab'"))
	add("literal-content", true, lit("'a'"))
	add("number-vs-string", false, replaceTok("1", func(string) string { return "'1'" }))
	add("keyword-case", false, func(q *query) bool {
		for i, t := range q.Toks {
			if isKeyword(t) {
				q.Toks[i] = strings.ToLower(t)
			}
		}
		return true
	})
	add("keyword-case", true, func(q *query) bool { q.Toks[0] = strings.ToLower(q.Toks[0]); return true })
	add("keyword-case", true, func(q *query) bool {
		for i, t := range q.Toks {
			if isKeyword(t) {
				q.Toks[i] = mixCase(t)
			}
		}
		return true
	})
	col := func(name string, to func(string) string) func(q *query) bool {
		return func(q *query) bool {
			hit := false
			for i, t := range q.Toks {
				pre, n := "", t
				if j := strings.LastIndex(t, "."); j >= 0 && t[0] != '\'' {
					pre, n = t[:j+1], t[j+1:]
				}
				if n == name && pre != "prod." {
					q.Toks[i] = pre + to(n)
					hit = true
				}
			}
			return hit
		}
	}
	add("identifier-case", false, col("host", strings.ToUpper))
	add("identifier-case", true, col("v", strings.ToUpper))
	add("quoted-vs-unquoted-identifier", false, col("host", func(n string) string { return `"` + n + `"` }))
	add("quoted-vs-unquoted-identifier", true, replaceTok("cpu", func(string) string { return `"cpu"` }))
	add("quoted-alias-case", false, replaceTok(`"Tag"`, func(string) string { return `"tag"` }))
	add("quoted-alias-case", true, replaceTok(`"Tag"`, func(string) string { return `"TAG"` }))
	add("quoted-vs-unquoted-alias", true, replaceTok(`"Tag"`, func(string) string { return `Tag` }))
	add("alias-case", false, replaceTok("k", strings.ToUpper))
	for _, h := range seqHeaders {
		h := h
		if b.ID == "db-qualified-literal" {
			break // db.table with the header is rejected by design
		}
		add("header", h == "default", func(q *query) bool { q.Hdr = h; return h != hdr })
	}
	fromGap := func(st string) func(q *query) bool {
		return func(q *query) bool {
			for i, t := range q.Toks {
				if t == "FROM" {
					q.Gaps[i] = st
					return true
				}
			}
			return false
		}
	}
	add("comment", false, fromGap("/*c*/"))
	add("comment", false, fromGap("/*C*/"))
	add("comment", true, fromGap("--c\n"))
	add("whitespace", false, fromGap("  "))
	add("whitespace", false, fromGap("\n"))
	add("whitespace", true, fromGap("\t"))
	add("trailing-semicolon", false, func(q *query) bool { q.Toks[len(q.Toks)-1] += ";"; return true })
	add("measurement", false, func(q *query) bool {
		for i, t := range q.Toks {
			if t == "cpu" && i > 0 && q.Toks[i-1] == "FROM" {
				q.Toks[i] = "mem"
				return true
			}
		}
		return false
	})
	return out
}

// enumeratePairs calls emit for every ordered pair of every family of the tier, in a fixed order.
func enumeratePairs(quick bool, emit func(*seqPair)) {
	if f := strings.TrimSpace(os.Getenv("VERIF_C16_FILTER")); f != "" && f != "sequences" {
		return
	}
	for bi := range seqBases {
		b := &seqBases[bi]
		if quick && !b.Quick {
			continue
		}
		hdrs := b.Hdrs
		if quick {
			hdrs = hdrs[:1]
		}
		for _, h := range hdrs {
			vs := seqVariants(b, h, quick)
			for i := range vs {
				for j := range vs {
					if i != j {
						emit(&seqPair{A: vs[i].Q, B: vs[j].Q, Base: b.ID, Hdr: h, LabA: vs[i].Label, LabB: vs[j].Label})
					}
				}
			}
		}
	}
}

const reusedPrefix = "after-another-statement:"

// judgePair: caches emptied, A requested, then B; B's answer against DuckDB's answer to B. A mismatch that B
// shows on its own (from empty caches) as well belongs to the single-statement enumeration and is reported
// there ("?single:").  served = B's first execution was answered from the transform cache although only A had
// been requested before it.
func (w *worker) judgePair(A, B *query, oracleB *answer) (kind, detail string, served bool) {
	w.handler.InvalidateCaches()
	w.askArc(A.SQL(), A.Hdr)
	h1, _ := cacheCounters(w)
	arcB := w.askArc(B.SQL(), B.Hdr)
	h2, _ := cacheCounters(w)
	served = h2 > h1
	k, d := compare(oracleB, arcB, false)
	if k == "" {
		return "", "", served
	}
	w.handler.InvalidateCaches()
	if k0, _ := compare(oracleB, w.askArc(B.SQL(), B.Hdr), false); k0 == k {
		return "?single:" + k, d, served
	}
	return reusedPrefix + k, d, served
}

func hdrTag(q *query) string {
	if q.Hdr != "" {
		return "|x-arc-database=" + q.Hdr
	}
	return ""
}

func pairSignature(kind string, A, B *query) string {
	return kind + "|" + showSQL(B.SQL()) + hdrTag(B) + "|after|" + showSQL(A.SQL()) + hdrTag(A)
}

// ---- minimisation of a failing pair ----------------------------------------------------------------------

type pairMin struct {
	w      *worker
	oracle map[string]*answer
	memo   map[string]string
	runs   int
}

func (m *pairMin) kindOf(A, B *query) string {
	key := A.Hdr + "\x00" + A.SQL() + "\x01" + B.Hdr + "\x00" + B.SQL()
	if k, ok := m.memo[key]; ok {
		return k
	}
	if A.Hdr == B.Hdr && A.SQL() == B.SQL() {
		return ""
	}
	ok := B.Hdr + "\x00" + B.SQL()
	o, seen := m.oracle[ok]
	if !seen {
		o = m.w.askOracleTimeout(B.SQL(), B.Hdr, candidateTimeout)
		m.oracle[ok] = o
	}
	k := "?duckdb-fails"
	if o.OK { // every class of this dimension needs DuckDB's answer to B
		m.runs++
		k, _, _ = m.w.judgePair(A, B, o)
	}
	m.memo[key] = k
	return k
}

// minimizePair shrinks (A, B) while the pair keeps failing with the same kind: first the DIFFERENCE between the
// two statements (every position where they differ is set to B's value if the failure survives; a remaining
// literal difference is replaced by 'Web-A' -> 'web-a'), then the COMMON part (header off, delta debugging and
// contiguous-range removal over the token positions of both statements at once).
func (m *pairMin) minimizePair(p *seqPair, kind string) (*query, *query) {
	A, B := p.A.clone(), p.B.clone()
	fails := func(a, b *query) bool { return m.kindOf(a, b) == kind }
	if A.Hdr != B.Hdr {
		c := A.clone()
		c.Hdr = B.Hdr
		if fails(c, B) {
			A = c
		}
	}
	for i := range A.Toks {
		if A.Toks[i] != B.Toks[i] {
			c := A.clone()
			c.Toks[i] = B.Toks[i]
			if fails(c, B) {
				A = c
			}
		}
		if A.Gaps[i] != B.Gaps[i] {
			c := A.clone()
			c.Gaps[i] = B.Gaps[i]
			if fails(c, B) {
				A = c
			}
		}
	}
	for i := range A.Toks {
		if A.Toks[i] != B.Toks[i] && A.Toks[i][0] == '\'' && B.Toks[i][0] == '\'' {
			ca, cb := A.clone(), B.clone()
			ca.Toks[i], cb.Toks[i] = "'Web-A'", "'web-a'"
			if fails(ca, cb) {
				A, B = ca, cb
			}
		}
	}
	if A.Hdr == B.Hdr && A.Hdr != "" {
		ca, cb := A.clone(), B.clone()
		ca.Hdr, cb.Hdr = "", ""
		if fails(ca, cb) {
			A, B = ca, cb
		}
	}
	// equal non-default gaps back to the default
	def := defaultGaps(A.Glue)
	for i := range A.Gaps {
		if A.Gaps[i] == B.Gaps[i] && A.Gaps[i] != def[i] {
			ca, cb := A.clone(), B.clone()
			ca.Gaps[i], cb.Gaps[i] = def[i], def[i]
			if fails(ca, cb) {
				A, B = ca, cb
			}
		}
	}
	ix := make([]int, len(A.Toks))
	for i := range ix {
		ix[i] = i
	}
	keep := ev.Minimize(ix, func(cand []int) bool {
		return len(cand) > 0 && fails(pick(A, cand), pick(B, cand))
	})
	for again := true; again; {
		again = false
		for n := len(keep) - 1; n >= 2 && !again; n-- {
			for s := 0; s+n <= len(keep) && !again; s++ {
				cand := append(append([]int{}, keep[:s]...), keep[s+n:]...)
				if len(cand) > 0 && fails(pick(A, cand), pick(B, cand)) {
					keep, again = cand, true
				}
			}
		}
	}
	return pick(A, keep), pick(B, keep)
}

// canonLit: for the subsumption test of pair classes every string literal counts as the same token.
func canonLit(q *query) *query {
	c := q.clone()
	for i, t := range c.Toks {
		if t != "" && t[0] == '\'' {
			c.Toks[i] = "'L'"
		}
	}
	return c
}
