// Package vos mirrors the part of package os that the instrumented repository packages use. Every
// call is delegated to the real OS (inside a scratch directory chosen by the harness); in addition
// every MUTATING call is counted and recorded, and the harness can make the process "die" at the
// k-th mutating call: that call is not performed (or, for a write, only a prefix of it is), and from
// then on every further mutating call is a no-op returning an error — exactly as if the process had
// been killed there (deferred clean-up code must not reach the disk after a crash).
package vos

import (
	"errors"
	"io/fs"
	"os"
	"sync"
	"time"
)

type (
	FileInfo  = os.FileInfo
	FileMode  = os.FileMode
	DirEntry  = os.DirEntry
	PathError = os.PathError
	Signal    = os.Signal
	Process   = os.Process
)

const (
	O_RDONLY = os.O_RDONLY
	O_WRONLY = os.O_WRONLY
	O_RDWR   = os.O_RDWR
	O_APPEND = os.O_APPEND
	O_CREATE = os.O_CREATE
	O_EXCL   = os.O_EXCL
	O_SYNC   = os.O_SYNC
	O_TRUNC  = os.O_TRUNC

	ModePerm    = os.ModePerm
	ModeDir     = os.ModeDir
	ModeSymlink = os.ModeSymlink

	PathSeparator = os.PathSeparator
)

var (
	ErrNotExist   = os.ErrNotExist
	ErrExist      = os.ErrExist
	ErrPermission = os.ErrPermission
	ErrClosed     = os.ErrClosed
	Stdout        = os.Stdout
	Stderr        = os.Stderr
	Stdin         = os.Stdin
	Args          = os.Args
	Interrupt     = os.Interrupt
	Kill          = os.Kill
)

var ErrCrashed = errors.New("vos: process crashed (injected)")

// Op is one recorded mutating file-system call.
type Op struct {
	Seq   int    `json:"seq"`
	Kind  string `json:"kind"` // create | open-trunc | open-append | write | rename | remove | mkdir | truncate | sync | close | chtimes
	Path  string `json:"path"`
	Path2 string `json:"path2,omitempty"`
	Len   int    `json:"len,omitempty"`
}

var (
	mu      sync.Mutex
	rec     bool
	ops     []Op
	crashAt = -1 // index (0-based) of the mutating op at which the process dies
	tornLen = -1 // if the crash op is a write: number of bytes that still reach the file (-1 = none)
	dead    bool
	// FailAt: the k-th mutating op returns this error instead of being performed (no crash)
	failAt  = -1
	failErr error
)

// Start resets the recorder. crash<0 = no crash.
func Start(crash, torn int) {
	mu.Lock()
	rec, ops, crashAt, tornLen, dead, failAt, failErr = true, nil, crash, torn, false, -1, nil
	mu.Unlock()
}

func FailAt(k int, err error) { mu.Lock(); failAt, failErr = k, err; mu.Unlock() }

// Stop ends recording and returns the log and whether the crash point was reached.
func Stop() ([]Op, bool) {
	mu.Lock()
	defer mu.Unlock()
	o, d := ops, dead
	rec, ops, crashAt, tornLen, dead, failAt = false, nil, -1, -1, false, -1
	return o, d
}

func Dead() bool { mu.Lock(); defer mu.Unlock(); return dead }

// step registers a mutating op. It returns (proceed, tornBytes, err): proceed=false means the op
// must not be performed and err returned.
func step(kind, path, path2 string, n int) (bool, int, error) {
	mu.Lock()
	defer mu.Unlock()
	if !rec {
		return true, -1, nil
	}
	if dead {
		return false, -1, ErrCrashed
	}
	idx := len(ops)
	ops = append(ops, Op{Seq: idx, Kind: kind, Path: path, Path2: path2, Len: n})
	if idx == crashAt {
		dead = true
		if kind == "write" && tornLen > 0 && tornLen < n {
			return false, tornLen, ErrCrashed
		}
		return false, -1, ErrCrashed
	}
	if idx == failAt {
		return false, -1, failErr
	}
	return true, -1, nil
}

type File struct {
	f    *os.File
	path string
}

func wrap(f *os.File, err error, path string) (*File, error) {
	if err != nil {
		return nil, err
	}
	return &File{f: f, path: path}, nil
}

func (f *File) Name() string                            { return f.f.Name() }
func (f *File) Read(p []byte) (int, error)              { return f.f.Read(p) }
func (f *File) ReadAt(p []byte, off int64) (int, error) { return f.f.ReadAt(p, off) }
func (f *File) Seek(o int64, w int) (int64, error)      { return f.f.Seek(o, w) }
func (f *File) Stat() (FileInfo, error)                 { return f.f.Stat() }
func (f *File) Fd() uintptr                             { return f.f.Fd() }
func (f *File) ReadDir(n int) ([]DirEntry, error)       { return f.f.ReadDir(n) }
func (f *File) Readdirnames(n int) ([]string, error)    { return f.f.Readdirnames(n) }
func (f *File) Real() *os.File                          { return f.f }
func (f *File) Write(p []byte) (int, error) {
	ok, torn, err := step("write", f.f.Name(), "", len(p))
	if !ok {
		if torn > 0 {
			f.f.Write(p[:torn])
		}
		return 0, err
	}
	return f.f.Write(p)
}
func (f *File) WriteString(s string) (int, error) { return f.Write([]byte(s)) }
func (f *File) WriteAt(p []byte, off int64) (int, error) {
	ok, torn, err := step("write", f.f.Name(), "", len(p))
	if !ok {
		if torn > 0 {
			f.f.WriteAt(p[:torn], off)
		}
		return 0, err
	}
	return f.f.WriteAt(p, off)
}
func (f *File) Truncate(n int64) error {
	if ok, _, err := step("truncate", f.f.Name(), "", int(n)); !ok {
		return err
	}
	return f.f.Truncate(n)
}
func (f *File) Sync() error {
	if ok, _, err := step("sync", f.f.Name(), "", 0); !ok {
		return err
	}
	return f.f.Sync()
}
func (f *File) Close() error           { return f.f.Close() } // closing does not change what a crash leaves on disk
func (f *File) Chmod(m FileMode) error { return f.f.Chmod(m) }

func OpenFile(name string, flag int, perm FileMode) (*File, error) {
	if flag&(O_WRONLY|O_RDWR|O_CREATE|O_TRUNC|O_APPEND) != 0 {
		kind := "open-write"
		switch {
		case flag&O_TRUNC != 0:
			kind = "open-trunc"
		case flag&O_APPEND != 0:
			kind = "open-append"
		case flag&O_CREATE != 0:
			kind = "create"
		}
		if ok, _, err := step(kind, name, "", 0); !ok {
			return nil, &os.PathError{Op: "open", Path: name, Err: err}
		}
	}
	f, err := os.OpenFile(name, flag, perm)
	return wrap(f, err, name)
}
func Open(name string) (*File, error) { f, err := os.Open(name); return wrap(f, err, name) }
func Create(name string) (*File, error) {
	return OpenFile(name, O_RDWR|O_CREATE|O_TRUNC, 0o666)
}
func CreateTemp(dir, pattern string) (*File, error) {
	if ok, _, err := step("create", dir+"/"+pattern, "", 0); !ok {
		return nil, &os.PathError{Op: "createtemp", Path: dir, Err: err}
	}
	f, err := os.CreateTemp(dir, pattern)
	return wrap(f, err, dir)
}
func Rename(a, b string) error {
	if ok, _, err := step("rename", a, b, 0); !ok {
		return &os.LinkError{Op: "rename", Old: a, New: b, Err: err}
	}
	return os.Rename(a, b)
}
func Remove(name string) error {
	if ok, _, err := step("remove", name, "", 0); !ok {
		return &os.PathError{Op: "remove", Path: name, Err: err}
	}
	return os.Remove(name)
}
func RemoveAll(name string) error {
	if ok, _, err := step("remove", name, "", 0); !ok {
		return &os.PathError{Op: "removeall", Path: name, Err: err}
	}
	return os.RemoveAll(name)
}
func MkdirAll(p string, perm FileMode) error {
	if ok, _, err := step("mkdir", p, "", 0); !ok {
		return &os.PathError{Op: "mkdir", Path: p, Err: err}
	}
	return os.MkdirAll(p, perm)
}
func Mkdir(p string, perm FileMode) error {
	if ok, _, err := step("mkdir", p, "", 0); !ok {
		return &os.PathError{Op: "mkdir", Path: p, Err: err}
	}
	return os.Mkdir(p, perm)
}
func WriteFile(name string, data []byte, perm FileMode) error {
	f, err := OpenFile(name, O_WRONLY|O_CREATE|O_TRUNC, perm)
	if err != nil {
		return err
	}
	_, err = f.Write(data)
	if err1 := f.Close(); err1 != nil && err == nil {
		err = err1
	}
	return err
}
func Chtimes(name string, a, m time.Time) error {
	if ok, _, err := step("chtimes", name, "", 0); !ok {
		return err
	}
	return os.Chtimes(name, a, m)
}
func Chmod(name string, m FileMode) error {
	if ok, _, err := step("chmod", name, "", 0); !ok {
		return err
	}
	return os.Chmod(name, m)
}
func Truncate(name string, n int64) error {
	if ok, _, err := step("truncate", name, "", int(n)); !ok {
		return err
	}
	return os.Truncate(name, n)
}

func Stat(name string) (FileInfo, error)      { return os.Stat(name) }
func Lstat(name string) (FileInfo, error)     { return os.Lstat(name) }
func ReadFile(name string) ([]byte, error)    { return os.ReadFile(name) }
func ReadDir(name string) ([]DirEntry, error) { return os.ReadDir(name) }
func IsNotExist(err error) bool               { return os.IsNotExist(err) }
func IsExist(err error) bool                  { return os.IsExist(err) }
func IsPermission(err error) bool             { return os.IsPermission(err) }
func Getenv(k string) string                  { return os.Getenv(k) }
func LookupEnv(k string) (string, bool)       { return os.LookupEnv(k) }
func Setenv(k, v string) error                { return os.Setenv(k, v) }
func Environ() []string                       { return os.Environ() }
func Getpid() int                             { return os.Getpid() }
func Getwd() (string, error)                  { return os.Getwd() }
func Hostname() (string, error)               { return os.Hostname() }
func TempDir() string                         { return os.TempDir() }
func Executable() (string, error)             { return os.Executable() }
func Exit(c int)                              { os.Exit(c) }
func MkdirTemp(d, p string) (string, error)   { return os.MkdirTemp(d, p) }
func DirFS(d string) fs.FS                    { return os.DirFS(d) }
func UserHomeDir() (string, error)            { return os.UserHomeDir() }
func Symlink(a, b string) error               { return os.Symlink(a, b) }
func Readlink(n string) (string, error)       { return os.Readlink(n) }
func SameFile(a, b FileInfo) bool             { return os.SameFile(a, b) }
func FindProcess(pid int) (*Process, error)   { return os.FindProcess(pid) }
