// Package vsync mirrors the part of package sync that the instrumented repository packages use.
// Mutex, RWMutex and WaitGroup park under the vsched scheduler with a pure enabledness predicate
// and then perform the real operation (which cannot block: the model said it is free).
package vsync

import (
	"sync"
	"sync/atomic"

	"github.com/basekick-labs/arc/zzverif/shim/vsched"
)

type (
	Once   = sync.Once
	Pool   = sync.Pool
	Map    = sync.Map
	Locker = sync.Locker
	Cond   = sync.Cond
)

func NewCond(l Locker) *Cond                                   { return sync.NewCond(l) }
func OnceFunc(f func()) func()                                 { return sync.OnceFunc(f) }
func OnceValue[T any](f func() T) func() T                     { return sync.OnceValue(f) }
func OnceValues[T1, T2 any](f func() (T1, T2)) func() (T1, T2) { return sync.OnceValues(f) }

type Mutex struct {
	mu   sync.Mutex
	held atomic.Int32
}

func (m *Mutex) Lock() {
	vsched.Yield("Mutex.Lock", func() bool { return m.held.Load() == 0 })
	m.mu.Lock()
	m.held.Store(1)
}

func (m *Mutex) TryLock() bool {
	vsched.Point("Mutex.TryLock")
	if m.mu.TryLock() {
		m.held.Store(1)
		return true
	}
	return false
}

func (m *Mutex) Unlock() {
	m.held.Store(0)
	m.mu.Unlock()
}

type RWMutex struct {
	mu      sync.RWMutex
	writer  atomic.Int32
	readers atomic.Int32
}

func (m *RWMutex) Lock() {
	vsched.Yield("RWMutex.Lock", func() bool { return m.writer.Load() == 0 && m.readers.Load() == 0 })
	m.mu.Lock()
	m.writer.Store(1)
}

func (m *RWMutex) Unlock() {
	m.writer.Store(0)
	m.mu.Unlock()
}

func (m *RWMutex) RLock() {
	vsched.Yield("RWMutex.RLock", func() bool { return m.writer.Load() == 0 })
	m.mu.RLock()
	m.readers.Add(1)
}

func (m *RWMutex) RUnlock() {
	m.readers.Add(-1)
	m.mu.RUnlock()
}

func (m *RWMutex) TryLock() bool {
	vsched.Point("RWMutex.TryLock")
	if m.mu.TryLock() {
		m.writer.Store(1)
		return true
	}
	return false
}

func (m *RWMutex) TryRLock() bool {
	vsched.Point("RWMutex.TryRLock")
	if m.mu.TryRLock() {
		m.readers.Add(1)
		return true
	}
	return false
}

func (m *RWMutex) RLocker() Locker { return (*rlocker)(m) }

type rlocker RWMutex

func (r *rlocker) Lock()   { (*RWMutex)(r).RLock() }
func (r *rlocker) Unlock() { (*RWMutex)(r).RUnlock() }

type WaitGroup struct {
	wg sync.WaitGroup
	n  atomic.Int64
}

func (w *WaitGroup) Add(d int) { w.n.Add(int64(d)); w.wg.Add(d) }
func (w *WaitGroup) Done()     { w.n.Add(-1); w.wg.Done() }
func (w *WaitGroup) Wait() {
	vsched.Yield("WaitGroup.Wait", func() bool { return w.n.Load() <= 0 })
	w.wg.Wait()
}
func (w *WaitGroup) Go(f func()) {
	w.Add(1)
	vsched.Go("WaitGroup.Go", func() { defer w.Done(); f() })
}
