// Package vsched is the cooperative scheduler runtime linked into overlay-instrumented repository
// packages. Exactly one controlled goroutine ("thread") runs at a time; every synchronisation
// operation first parks the thread with a PURE enabledness predicate, the scheduler picks which
// enabled thread performs its operation next, and records the decision. With no scheduler
// attached every entry point falls through to the real primitive.
package vsched

import (
	"fmt"
	"runtime"
	"sync"
	"sync/atomic"
	"time"
)

type Thread struct {
	ID    int
	Name  string
	sem   chan struct{}
	ready func() bool
	Site  string
	done  bool
	goid  int64
	ans   int // answer to a Choose request
}

type evKind uint8

const (
	evYield evKind = iota
	evExit
	evChoose
)

type event struct {
	t    *Thread
	kind evKind
	n    int
	p    any // panic value on exit
}

// PointRec is one recorded decision.
type PointRec struct {
	N       int    // number of alternatives (enabled threads, or ready select cases)
	Chosen  int    // index taken
	Choice  bool   // true = data choice (select case), false = scheduling decision
	LastEn  bool   // the previously running thread was still enabled (=> Chosen!=0 is a preemption)
	Thread  int    // thread that ran after the decision
	Site    string // where that thread was parked
	Enabled []int  // thread ids (scheduling decisions only)
}

type Sched struct {
	threads  []*Thread
	cur      *Thread
	last     *Thread
	ctl      chan event
	poison   atomic.Bool
	Points   []PointRec
	prefix   []int
	Deadlock bool
	Stuck    bool // watchdog fired: a thread blocked outside the model
	StuckAt  string
	Panic    any
	Foreign  int64 // shim calls from goroutines the scheduler does not control
	Watchdog time.Duration
	wg       sync.WaitGroup
	Diverged string
}

var active atomic.Pointer[Sched]

func cur() *Sched { return active.Load() }

// Attached reports whether the calling goroutine is a controlled thread of a live execution.
func Attached() bool {
	s := cur()
	return s != nil && s.mine()
}

func goid() int64 {
	var buf [40]byte
	n := runtime.Stack(buf[:], false)
	// "goroutine 123 ["
	var id int64
	for i := 10; i < n && buf[i] >= '0' && buf[i] <= '9'; i++ {
		id = id*10 + int64(buf[i]-'0')
	}
	return id
}

func (s *Sched) mine() bool {
	t := s.cur
	if t == nil || t.goid != goid() {
		atomic.AddInt64(&s.Foreign, 1)
		return false
	}
	return true
}

// Yield parks the running thread before an operation that is enabled iff ready() (nil = always).
// It returns true if the caller is under scheduler control (and the operation is now enabled and
// the thread has been scheduled to perform it), false if detached (caller must use real blocking).
func Yield(site string, ready func() bool) bool {
	s := cur()
	if s == nil || !s.mine() {
		return false
	}
	t := s.cur
	t.Site, t.ready = site, ready
	s.ctl <- event{t: t, kind: evYield}
	<-t.sem
	if s.poison.Load() {
		runtime.Goexit()
	}
	t.ready = nil
	return true
}

// Point is a plain scheduling point.
func Point(site string) { Yield(site, nil) }

// Choose asks the scheduler for a data choice in [0,n). Detached: 0.
func Choose(n int) int {
	s := cur()
	if s == nil || n <= 1 || !s.mine() {
		return 0
	}
	t := s.cur
	s.ctl <- event{t: t, kind: evChoose, n: n}
	<-t.sem
	if s.poison.Load() {
		runtime.Goexit()
	}
	return t.ans
}

// Go starts fn as a new controlled thread (detached: a plain goroutine).
func Go(site string, fn func()) {
	s := cur()
	if s == nil || !s.mine() {
		go fn()
		return
	}
	t := &Thread{ID: len(s.threads), Name: site, sem: make(chan struct{}, 1), Site: "start " + site}
	s.threads = append(s.threads, t)
	s.wg.Add(1)
	go s.threadMain(t, fn)
}

func (s *Sched) threadMain(t *Thread, fn func()) {
	defer s.wg.Done()
	<-t.sem
	if s.poison.Load() {
		return
	}
	t.goid = goid()
	normal := false
	defer func() {
		if s.poison.Load() {
			return
		}
		var p any
		if !normal {
			p = recover()
			if p == nil {
				p = "runtime.Goexit"
			}
		}
		t.done = true
		s.ctl <- event{t: t, kind: evExit, p: p}
	}()
	fn()
	normal = true
}

// Run executes body as thread 0 under the scheduler, replaying prefix and then taking choice 0.
func Run(body func(), prefix []int, watchdog time.Duration) *Sched {
	s := &Sched{ctl: make(chan event), prefix: prefix, Watchdog: watchdog}
	if !active.CompareAndSwap(nil, s) {
		panic("vsched: nested Run")
	}
	defer active.Store(nil)
	t0 := &Thread{ID: 0, Name: "main", sem: make(chan struct{}, 1), Site: "start main"}
	s.threads = []*Thread{t0}
	s.wg.Add(1)
	go s.threadMain(t0, body)
	timer := time.NewTimer(time.Hour)
	defer timer.Stop()
	for {
		// every live thread is parked here
		var enabled []*Thread
		alive := 0
		for _, t := range s.threads {
			if t.done {
				continue
			}
			alive++
			if t.ready == nil || t.ready() {
				enabled = append(enabled, t)
			}
		}
		if alive == 0 {
			return s
		}
		if len(enabled) == 0 {
			if !s.threads[0].done {
				s.Deadlock = true
			}
			s.kill()
			return s
		}
		lastEn := false
		if s.last != nil {
			for i, t := range enabled {
				if t == s.last {
					copy(enabled[1:i+1], enabled[:i])
					enabled[0] = t
					lastEn = true
					break
				}
			}
		}
		k := s.decide(len(enabled))
		if k < 0 {
			s.kill()
			return s
		}
		t := enabled[k]
		ids := make([]int, len(enabled))
		for i, e := range enabled {
			ids[i] = e.ID
		}
		s.Points = append(s.Points, PointRec{N: len(enabled), Chosen: k, LastEn: lastEn, Thread: t.ID, Site: t.Site, Enabled: ids})
		s.cur, s.last = t, t
		t.sem <- struct{}{}
	wait:
		for {
			if !timer.Stop() {
				select {
				case <-timer.C:
				default:
				}
			}
			timer.Reset(s.Watchdog)
			select {
			case ev := <-s.ctl:
				switch ev.kind {
				case evYield:
					break wait
				case evExit:
					if ev.p != nil {
						s.Panic = fmt.Sprintf("thread %d (%s): %v", ev.t.ID, ev.t.Name, ev.p)
						s.kill()
						return s
					}
					break wait
				case evChoose:
					c := s.decide(ev.n)
					if c < 0 {
						s.kill()
						return s
					}
					s.Points = append(s.Points, PointRec{N: ev.n, Chosen: c, Choice: true, Thread: ev.t.ID, Site: ev.t.Site})
					ev.t.ans = c
					ev.t.sem <- struct{}{}
				}
			case <-timer.C:
				s.Stuck = true
				s.StuckAt = fmt.Sprintf("thread %d (%s) after %s", t.ID, t.Name, t.Site)
				s.kill()
				return s
			}
		}
		s.cur = nil
	}
}

func (s *Sched) decide(n int) int {
	i := len(s.Points)
	if i < len(s.prefix) {
		k := s.prefix[i]
		if k >= n {
			s.Diverged = fmt.Sprintf("replay divergence at point %d: choice %d of %d", i, k, n)
			return -1
		}
		return k
	}
	return 0
}

// kill ends the execution: parked threads are woken with the poison flag set and exit via Goexit.
func (s *Sched) kill() {
	s.poison.Store(true)
	s.cur = nil
	for _, t := range s.threads {
		if !t.done {
			select {
			case t.sem <- struct{}{}:
			default:
			}
		}
	}
	// drain late events from threads that were running when we gave up
	done := make(chan struct{})
	go func() { s.wg.Wait(); close(done) }()
	deadline := time.After(2 * time.Second)
	for {
		select {
		case <-s.ctl:
		case <-done:
			return
		case <-deadline:
			return // leaked goroutines; the worker process is recycled by the explorer
		}
	}
}

// ---- channel helpers used by the rewritten code -------------------------------------------

func CanRecv[T any](ch <-chan T) bool {
	if ch == nil {
		return false
	}
	if len(ch) > 0 {
		return true
	}
	// empty: a non-blocking receive can only succeed if the channel is closed (non-destructive)
	select {
	case _, ok := <-ch:
		if ok {
			panic("vsched: value consumed by readiness probe (uncontrolled sender on an unbuffered channel)")
		}
		return true
	default:
		return false
	}
}

func CanSend[T any](ch chan<- T) bool { return ch != nil && len(ch) < cap(ch) }

func ValueFor[T any](ch chan<- T, v T) T { return v }

func Send[T any](ch chan<- T, v T) {
	if Yield("chan send", func() bool { return CanSend(ch) }) {
		ch <- v
		return
	}
	ch <- v
}

func Recv[T any](ch <-chan T) T {
	Yield("chan recv", func() bool { return CanRecv(ch) })
	return <-ch
}

func RecvOK[T any](ch <-chan T) (T, bool) {
	Yield("chan recv", func() bool { return CanRecv(ch) })
	v, ok := <-ch
	return v, ok
}

// Select returns the index of the communication to perform (-1 = default clause). Under the
// scheduler the thread is parked until some case is ready (or immediately enabled when the select
// has a default), and when several cases are ready the scheduler chooses among them.
func Select(site string, hasDefault bool, n int, ready func(i int) bool) int {
	any := func() bool {
		for i := 0; i < n; i++ {
			if ready(i) {
				return true
			}
		}
		return false
	}
	var en func() bool
	if !hasDefault {
		en = any
	}
	if Yield(site, en) {
		var r []int
		for i := 0; i < n; i++ {
			if ready(i) {
				r = append(r, i)
			}
		}
		switch len(r) {
		case 0:
			return -1
		case 1:
			return r[0]
		}
		return r[Choose(len(r))]
	}
	// detached: poll (the free-running race pass uses the unrewritten code, so this path only
	// serves code that runs outside an execution, e.g. teardown)
	for {
		for i := 0; i < n; i++ {
			if ready(i) {
				return i
			}
		}
		if hasDefault {
			return -1
		}
		time.Sleep(50 * time.Microsecond)
	}
}
