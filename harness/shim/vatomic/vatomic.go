// Package vatomic mirrors the part of sync/atomic the instrumented packages use. Every operation is
// the real atomic operation; it is additionally a scheduling point when the scenario has registered
// the variable's address with Watch (unwatched counters stay invisible to keep the space small —
// this can only lose coverage, never create an alarm).
package vatomic

import (
	"sync"
	"sync/atomic"
	"unsafe"

	"github.com/basekick-labs/arc/zzverif/shim/vsched"
)

var watched sync.Map // unsafe.Pointer -> name
var watchAll atomic.Bool

func Watch(p unsafe.Pointer, name string) { watched.Store(p, name) }
func WatchAll(on bool)                    { watchAll.Store(on) }
func Reset() {
	watched.Range(func(k, _ any) bool { watched.Delete(k); return true })
	watchAll.Store(false)
}

func pt(p unsafe.Pointer, op string) {
	if watchAll.Load() {
		vsched.Point("atomic " + op)
		return
	}
	if n, ok := watched.Load(p); ok {
		vsched.Point("atomic " + n.(string) + "." + op)
	}
}

type Int64 struct{ v atomic.Int64 }

func (x *Int64) Load() int64        { pt(unsafe.Pointer(x), "Load"); return x.v.Load() }
func (x *Int64) Store(n int64)      { pt(unsafe.Pointer(x), "Store"); x.v.Store(n) }
func (x *Int64) Add(d int64) int64  { pt(unsafe.Pointer(x), "Add"); return x.v.Add(d) }
func (x *Int64) Swap(n int64) int64 { pt(unsafe.Pointer(x), "Swap"); return x.v.Swap(n) }
func (x *Int64) CompareAndSwap(o, n int64) bool {
	pt(unsafe.Pointer(x), "CAS")
	return x.v.CompareAndSwap(o, n)
}

type Uint64 struct{ v atomic.Uint64 }

func (x *Uint64) Load() uint64         { pt(unsafe.Pointer(x), "Load"); return x.v.Load() }
func (x *Uint64) Store(n uint64)       { pt(unsafe.Pointer(x), "Store"); x.v.Store(n) }
func (x *Uint64) Add(d uint64) uint64  { pt(unsafe.Pointer(x), "Add"); return x.v.Add(d) }
func (x *Uint64) Swap(n uint64) uint64 { pt(unsafe.Pointer(x), "Swap"); return x.v.Swap(n) }
func (x *Uint64) CompareAndSwap(o, n uint64) bool {
	pt(unsafe.Pointer(x), "CAS")
	return x.v.CompareAndSwap(o, n)
}

type Int32 struct{ v atomic.Int32 }

func (x *Int32) Load() int32        { pt(unsafe.Pointer(x), "Load"); return x.v.Load() }
func (x *Int32) Store(n int32)      { pt(unsafe.Pointer(x), "Store"); x.v.Store(n) }
func (x *Int32) Add(d int32) int32  { pt(unsafe.Pointer(x), "Add"); return x.v.Add(d) }
func (x *Int32) Swap(n int32) int32 { pt(unsafe.Pointer(x), "Swap"); return x.v.Swap(n) }
func (x *Int32) CompareAndSwap(o, n int32) bool {
	pt(unsafe.Pointer(x), "CAS")
	return x.v.CompareAndSwap(o, n)
}

type Uint32 struct{ v atomic.Uint32 }

func (x *Uint32) Load() uint32        { pt(unsafe.Pointer(x), "Load"); return x.v.Load() }
func (x *Uint32) Store(n uint32)      { pt(unsafe.Pointer(x), "Store"); x.v.Store(n) }
func (x *Uint32) Add(d uint32) uint32 { pt(unsafe.Pointer(x), "Add"); return x.v.Add(d) }
func (x *Uint32) CompareAndSwap(o, n uint32) bool {
	pt(unsafe.Pointer(x), "CAS")
	return x.v.CompareAndSwap(o, n)
}

type Bool struct{ v atomic.Bool }

func (x *Bool) Load() bool       { pt(unsafe.Pointer(x), "Load"); return x.v.Load() }
func (x *Bool) Store(b bool)     { pt(unsafe.Pointer(x), "Store"); x.v.Store(b) }
func (x *Bool) Swap(b bool) bool { pt(unsafe.Pointer(x), "Swap"); return x.v.Swap(b) }
func (x *Bool) CompareAndSwap(o, n bool) bool {
	pt(unsafe.Pointer(x), "CAS")
	return x.v.CompareAndSwap(o, n)
}

type Value = atomic.Value

type Pointer[T any] struct{ v atomic.Pointer[T] }

func (x *Pointer[T]) Load() *T     { pt(unsafe.Pointer(x), "Load"); return x.v.Load() }
func (x *Pointer[T]) Store(p *T)   { pt(unsafe.Pointer(x), "Store"); x.v.Store(p) }
func (x *Pointer[T]) Swap(p *T) *T { pt(unsafe.Pointer(x), "Swap"); return x.v.Swap(p) }
func (x *Pointer[T]) CompareAndSwap(o, n *T) bool {
	pt(unsafe.Pointer(x), "CAS")
	return x.v.CompareAndSwap(o, n)
}

func AddInt64(p *int64, d int64) int64 { pt(unsafe.Pointer(p), "Add"); return atomic.AddInt64(p, d) }
func LoadInt64(p *int64) int64         { pt(unsafe.Pointer(p), "Load"); return atomic.LoadInt64(p) }
func StoreInt64(p *int64, n int64)     { pt(unsafe.Pointer(p), "Store"); atomic.StoreInt64(p, n) }
func CompareAndSwapInt64(p *int64, o, n int64) bool {
	pt(unsafe.Pointer(p), "CAS")
	return atomic.CompareAndSwapInt64(p, o, n)
}
func AddUint64(p *uint64, d uint64) uint64 {
	pt(unsafe.Pointer(p), "Add")
	return atomic.AddUint64(p, d)
}
func LoadUint64(p *uint64) uint64      { pt(unsafe.Pointer(p), "Load"); return atomic.LoadUint64(p) }
func StoreUint64(p *uint64, n uint64)  { pt(unsafe.Pointer(p), "Store"); atomic.StoreUint64(p, n) }
func AddInt32(p *int32, d int32) int32 { pt(unsafe.Pointer(p), "Add"); return atomic.AddInt32(p, d) }
func LoadInt32(p *int32) int32         { pt(unsafe.Pointer(p), "Load"); return atomic.LoadInt32(p) }
func StoreInt32(p *int32, n int32)     { pt(unsafe.Pointer(p), "Store"); atomic.StoreInt32(p, n) }
func CompareAndSwapInt32(p *int32, o, n int32) bool {
	pt(unsafe.Pointer(p), "CAS")
	return atomic.CompareAndSwapInt32(p, o, n)
}
func LoadUint32(p *uint32) uint32     { pt(unsafe.Pointer(p), "Load"); return atomic.LoadUint32(p) }
func StoreUint32(p *uint32, n uint32) { pt(unsafe.Pointer(p), "Store"); atomic.StoreUint32(p, n) }
func AddUint32(p *uint32, d uint32) uint32 {
	pt(unsafe.Pointer(p), "Add")
	return atomic.AddUint32(p, d)
}

// Peek reads without being a scheduling point (for harness predicates evaluated by the scheduler).
func (x *Int64) Peek() int64   { return x.v.Load() }
func (x *Uint64) Peek() uint64 { return x.v.Load() }
func (x *Bool) Peek() bool     { return x.v.Load() }
