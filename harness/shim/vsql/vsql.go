// Package vsql mirrors the part of database/sql the instrumented packages use. It models the
// connection pool limit (SetMaxOpenConns) as a counting semaphore the scheduler can see, so that
// "waiting for the only connection" is a visible, pure-predicate blocking operation instead of an
// un-modelled real block, and every database operation is a scheduling point. The real pool is kept
// configured identically; because the model acquires first, the real call never blocks.
package vsql

import (
	"context"
	"database/sql"
	"sync/atomic"

	"github.com/basekick-labs/arc/zzverif/shim/vsched"
)

type (
	NullString  = sql.NullString
	NullTime    = sql.NullTime
	NullInt64   = sql.NullInt64
	NullInt32   = sql.NullInt32
	NullBool    = sql.NullBool
	NullFloat64 = sql.NullFloat64
	Result      = sql.Result
	TxOptions   = sql.TxOptions
	RawBytes    = sql.RawBytes
	DBStats     = sql.DBStats
)

var (
	ErrNoRows   = sql.ErrNoRows
	ErrTxDone   = sql.ErrTxDone
	ErrConnDone = sql.ErrConnDone
)

type DB struct {
	real  *sql.DB
	max   atomic.Int32
	inUse atomic.Int32
}

func Open(driver, dsn string) (*DB, error) {
	r, err := sql.Open(driver, dsn)
	if err != nil {
		return nil, err
	}
	return &DB{real: r}, nil
}

// Real exposes the underlying handle (harness oracles read through it outside executions).
func (d *DB) Real() *sql.DB { return d.real }

func (d *DB) SetMaxOpenConns(n int) { d.max.Store(int32(n)); d.real.SetMaxOpenConns(n) }
func (d *DB) SetMaxIdleConns(n int) { d.real.SetMaxIdleConns(n) }
func (d *DB) SetConnMaxLifetime(t interface{ Nanoseconds() int64 }) {
	d.real.SetConnMaxLifetime(durationOf(t))
}
func (d *DB) Ping() error { d.acquire("Ping"); defer d.release(); return d.real.Ping() }
func (d *DB) PingContext(c context.Context) error {
	d.acquire("Ping")
	defer d.release()
	return d.real.PingContext(c)
}
func (d *DB) Close() error   { return d.real.Close() }
func (d *DB) Stats() DBStats { return d.real.Stats() }

func (d *DB) acquire(op string) {
	vsched.Yield("sql "+op, func() bool { m := d.max.Load(); return m <= 0 || d.inUse.Load() < m })
	d.inUse.Add(1)
}
func (d *DB) release() { d.inUse.Add(-1) }

func (d *DB) Exec(q string, a ...any) (Result, error) {
	d.acquire("Exec")
	defer d.release()
	return d.real.Exec(q, a...)
}
func (d *DB) ExecContext(c context.Context, q string, a ...any) (Result, error) {
	d.acquire("Exec")
	defer d.release()
	return d.real.ExecContext(c, q, a...)
}

type Rows struct {
	r    *sql.Rows
	d    *DB
	done bool
}

func (d *DB) Query(q string, a ...any) (*Rows, error) {
	d.acquire("Query")
	r, err := d.real.Query(q, a...)
	if err != nil {
		d.release()
		return nil, err
	}
	return &Rows{r: r, d: d}, nil
}
func (d *DB) QueryContext(c context.Context, q string, a ...any) (*Rows, error) {
	d.acquire("Query")
	r, err := d.real.QueryContext(c, q, a...)
	if err != nil {
		d.release()
		return nil, err
	}
	return &Rows{r: r, d: d}, nil
}

func (r *Rows) rel() {
	if !r.done {
		r.done = true
		if r.d != nil {
			r.d.release()
		}
	}
}
func (r *Rows) Next() bool {
	ok := r.r.Next()
	if !ok {
		r.rel() // database/sql closes the rows (and frees the connection) when Next returns false
	}
	return ok
}
func (r *Rows) Scan(dest ...any) error     { return r.r.Scan(dest...) }
func (r *Rows) Err() error                 { return r.r.Err() }
func (r *Rows) Columns() ([]string, error) { return r.r.Columns() }
func (r *Rows) Close() error               { err := r.r.Close(); r.rel(); return err }

type Row struct {
	r *sql.Row
	d *DB
}

func (d *DB) QueryRow(q string, a ...any) *Row {
	d.acquire("QueryRow")
	return &Row{r: d.real.QueryRow(q, a...), d: d}
}
func (d *DB) QueryRowContext(c context.Context, q string, a ...any) *Row {
	d.acquire("QueryRow")
	return &Row{r: d.real.QueryRowContext(c, q, a...), d: d}
}
func (r *Row) Scan(dest ...any) error {
	err := r.r.Scan(dest...)
	if r.d != nil {
		r.d.release()
		r.d = nil
	}
	return err
}
func (r *Row) Err() error { return r.r.Err() }

type Tx struct {
	t    *sql.Tx
	d    *DB
	done bool
}

func (d *DB) Begin() (*Tx, error) { return d.BeginTx(context.Background(), nil) }
func (d *DB) BeginTx(c context.Context, o *TxOptions) (*Tx, error) {
	d.acquire("Begin")
	t, err := d.real.BeginTx(c, o)
	if err != nil {
		d.release()
		return nil, err
	}
	return &Tx{t: t, d: d}, nil
}
func (t *Tx) rel() {
	if !t.done {
		t.done = true
		t.d.release()
	}
}
func (t *Tx) Commit() error   { err := t.t.Commit(); t.rel(); return err }
func (t *Tx) Rollback() error { err := t.t.Rollback(); t.rel(); return err }
func (t *Tx) Exec(q string, a ...any) (Result, error) {
	vsched.Point("sql tx.Exec")
	return t.t.Exec(q, a...)
}
func (t *Tx) ExecContext(c context.Context, q string, a ...any) (Result, error) {
	vsched.Point("sql tx.Exec")
	return t.t.ExecContext(c, q, a...)
}
func (t *Tx) Query(q string, a ...any) (*Rows, error) {
	r, err := t.t.Query(q, a...)
	if err != nil {
		return nil, err
	}
	return &Rows{r: r}, nil
}
func (t *Tx) QueryContext(c context.Context, q string, a ...any) (*Rows, error) {
	r, err := t.t.QueryContext(c, q, a...)
	if err != nil {
		return nil, err
	}
	return &Rows{r: r}, nil
}
func (t *Tx) QueryRow(q string, a ...any) *Row { return &Row{r: t.t.QueryRow(q, a...)} }
func (t *Tx) QueryRowContext(c context.Context, q string, a ...any) *Row {
	return &Row{r: t.t.QueryRowContext(c, q, a...)}
}
