package vsql

import "time"

func durationOf(t interface{ Nanoseconds() int64 }) time.Duration {
	return time.Duration(t.Nanoseconds())
}
