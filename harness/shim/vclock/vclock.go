// Package vclock replaces the wall clock inside overlay-instrumented packages. Time is a global
// virtual instant that moves only (a) by 1µs on every Now() call, so that values derived from the
// clock for uniqueness (file names) stay distinct exactly as they do on a real clock, and (b) when
// the scenario calls Advance. Timers and tickers are virtual: their channels have capacity 1 and
// are fed only by Advance, in deadline order, so the scheduler's readiness probes stay pure.
// With no scenario clock installed (Install not called) every function falls through to package time.
package vclock

import (
	"sort"
	"sync"
	"time"
)

var (
	mu      sync.Mutex
	on      bool
	tickNS  int64 = 1000
	nowNS   int64
	timers  []*Timer
	tickers []*Ticker
)

// Install switches the virtual clock on at the given instant and forgets all timers.
func Install(t time.Time) {
	mu.Lock()
	on, nowNS, timers, tickers, tickNS = true, t.UnixNano(), nil, nil, 1000
	mu.Unlock()
}

// SetTick sets how far every Now() reading moves the clock (default 1µs; 0 = frozen between Advances).
func SetTick(ns int64) { mu.Lock(); tickNS = ns; mu.Unlock() }

// Jump moves the clock by d (which may be negative) WITHOUT firing timers: a wall-clock step.
func Jump(d time.Duration) { mu.Lock(); nowNS += int64(d); mu.Unlock() }

func Uninstall() { mu.Lock(); on, timers, tickers = false, nil, nil; mu.Unlock() }

func Now() time.Time {
	mu.Lock()
	defer mu.Unlock()
	if !on {
		return time.Now()
	}
	nowNS += tickNS
	return time.Unix(0, nowNS)
}

func peek() int64 { return nowNS }

func Since(t time.Time) time.Duration { return Now().Sub(t) }
func Until(t time.Time) time.Duration { return t.Sub(Now()) }

type Timer struct {
	C        <-chan time.Time
	c        chan time.Time
	deadline int64
	active   bool
	real     *time.Timer
	fn       func()
}

func NewTimer(d time.Duration) *Timer {
	mu.Lock()
	defer mu.Unlock()
	if !on {
		rt := time.NewTimer(d)
		return &Timer{C: rt.C, real: rt}
	}
	c := make(chan time.Time, 1)
	t := &Timer{C: c, c: c, deadline: nowNS + int64(d), active: true}
	timers = append(timers, t)
	return t
}

func AfterFunc(d time.Duration, f func()) *Timer {
	mu.Lock()
	defer mu.Unlock()
	if !on {
		return &Timer{real: time.AfterFunc(d, f)}
	}
	t := &Timer{deadline: nowNS + int64(d), active: true, fn: f}
	timers = append(timers, t)
	return t
}

func After(d time.Duration) <-chan time.Time { return NewTimer(d).C }

func (t *Timer) Stop() bool {
	if t.real != nil {
		return t.real.Stop()
	}
	mu.Lock()
	defer mu.Unlock()
	was := t.active
	t.active = false
	// Go >= 1.23 semantics: after Stop no stale value is delivered
	if t.c != nil {
		select {
		case <-t.c:
		default:
		}
	}
	return was
}

func (t *Timer) Reset(d time.Duration) bool {
	if t.real != nil {
		return t.real.Reset(d)
	}
	mu.Lock()
	defer mu.Unlock()
	was := t.active
	if t.c != nil {
		select {
		case <-t.c:
		default:
		}
	}
	t.deadline = nowNS + int64(d)
	t.active = true
	found := false
	for _, x := range timers {
		if x == t {
			found = true
		}
	}
	if !found {
		timers = append(timers, t)
	}
	return was
}

type Ticker struct {
	C      <-chan time.Time
	c      chan time.Time
	period int64
	next   int64
	active bool
	real   *time.Ticker
}

func NewTicker(d time.Duration) *Ticker {
	mu.Lock()
	defer mu.Unlock()
	if !on {
		rt := time.NewTicker(d)
		return &Ticker{C: rt.C, real: rt}
	}
	c := make(chan time.Time, 1)
	t := &Ticker{C: c, c: c, period: int64(d), next: nowNS + int64(d), active: true}
	tickers = append(tickers, t)
	return t
}

func (t *Ticker) Stop() {
	if t.real != nil {
		t.real.Stop()
		return
	}
	mu.Lock()
	t.active = false
	mu.Unlock()
}

func (t *Ticker) Reset(d time.Duration) {
	if t.real != nil {
		t.real.Reset(d)
		return
	}
	mu.Lock()
	t.period, t.next, t.active = int64(d), nowNS+int64(d), true
	mu.Unlock()
}

func Tick(d time.Duration) <-chan time.Time { return NewTicker(d).C }

// Sleep under the virtual clock simply advances it (the sleeper is the only thing that runs).
func Sleep(d time.Duration) {
	mu.Lock()
	v := on
	mu.Unlock()
	if !v {
		time.Sleep(d)
		return
	}
	Advance(d)
}

// Advance moves the clock and fires every due timer/ticker in deadline order. Called by scenario
// events only (a controlled thread, or the harness between executions).
func Advance(d time.Duration) {
	mu.Lock()
	if !on {
		mu.Unlock()
		return
	}
	target := nowNS + int64(d)
	type due struct {
		at int64
		t  *Timer
		k  *Ticker
	}
	var fns []func()
	for {
		var ds []due
		for _, t := range timers {
			if t.active && t.deadline <= target {
				ds = append(ds, due{at: t.deadline, t: t})
			}
		}
		for _, k := range tickers {
			if k.active && k.next <= target {
				ds = append(ds, due{at: k.next, k: k})
			}
		}
		if len(ds) == 0 {
			break
		}
		sort.SliceStable(ds, func(i, j int) bool { return ds[i].at < ds[j].at })
		x := ds[0]
		if x.at > nowNS {
			nowNS = x.at
		}
		if x.t != nil {
			x.t.active = false
			if x.t.fn != nil {
				fns = append(fns, x.t.fn)
			} else {
				select {
				case x.t.c <- time.Unix(0, nowNS):
				default:
				}
			}
		} else {
			x.k.next += x.k.period
			select {
			case x.k.c <- time.Unix(0, nowNS):
			default:
			}
		}
	}
	if target > nowNS {
		nowNS = target
	}
	mu.Unlock()
	for _, f := range fns {
		f()
	}
}
