package main

import (
	"bytes"
	"fmt"
	"go/ast"
	"go/printer"
	"go/token"
	"reflect"
	"strings"
)

// ---------------------------------------------------------------------------
// generic reflective AST mapper (post-order) with statement/expression hooks
// ---------------------------------------------------------------------------

type mapper struct {
	fset     *token.FileSet
	stmt     func(ast.Stmt) ast.Stmt
	expr     func(ast.Expr) ast.Expr
	preStmt  func(ast.Stmt) bool // return true = handled, do not descend
	count    int
	selectID int
	err      error
}

var (
	exprType = reflect.TypeOf((*ast.Expr)(nil)).Elem()
	stmtType = reflect.TypeOf((*ast.Stmt)(nil)).Elem()
	nodeType = reflect.TypeOf((*ast.Node)(nil)).Elem()
)

func (m *mapper) node(n ast.Node) {
	if n == nil || reflect.ValueOf(n).IsNil() {
		return
	}
	if s, ok := n.(ast.Stmt); ok && m.preStmt != nil && m.preStmt(s) {
		return
	}
	if cc, ok := n.(*ast.CommClause); ok {
		// the communication itself is handled by the select rewrite; only the body is mapped. Expression-only
		// mappers (the time rewrite) must still see the communication: `case <-time.After(d):` has to become the
		// virtual-clock call BEFORE the select rewrite hoists the operand, or the timer stays a real one.
		if m.stmt == nil && m.preStmt == nil && cc.Comm != nil {
			m.node(cc.Comm)
		}
		for i, s := range cc.Body {
			cc.Body[i] = m.mapStmt(s)
		}
		return
	}
	v := reflect.ValueOf(n).Elem()
	for i := 0; i < v.NumField(); i++ {
		f := v.Field(i)
		if !f.CanSet() {
			continue
		}
		switch f.Kind() {
		case reflect.Interface:
			if f.IsNil() {
				continue
			}
			switch {
			case f.Type() == exprType:
				f.Set(reflect.ValueOf(m.mapExpr(f.Interface().(ast.Expr))))
			case f.Type() == stmtType:
				f.Set(reflect.ValueOf(m.mapStmt(f.Interface().(ast.Stmt))))
			case f.Type().Implements(nodeType):
				if nn, ok := f.Interface().(ast.Node); ok {
					m.node(nn)
				}
			}
		case reflect.Ptr:
			if f.IsNil() {
				continue
			}
			if nn, ok := f.Interface().(ast.Node); ok {
				if _, isObj := f.Interface().(*ast.Object); isObj {
					continue
				}
				m.node(nn)
			}
		case reflect.Slice:
			for j := 0; j < f.Len(); j++ {
				e := f.Index(j)
				if e.Kind() == reflect.Interface && e.IsNil() {
					continue
				}
				switch {
				case e.Type() == exprType:
					e.Set(reflect.ValueOf(m.mapExpr(e.Interface().(ast.Expr))))
				case e.Type() == stmtType:
					e.Set(reflect.ValueOf(m.mapStmt(e.Interface().(ast.Stmt))))
				default:
					if e.Kind() == reflect.Ptr && e.IsNil() {
						continue
					}
					if nn, ok := e.Interface().(ast.Node); ok {
						m.node(nn)
					}
				}
			}
		}
	}
}

func (m *mapper) mapExpr(e ast.Expr) ast.Expr {
	m.node(e)
	if m.expr != nil {
		return m.expr(e)
	}
	return e
}

func (m *mapper) mapStmt(s ast.Stmt) ast.Stmt {
	m.node(s)
	if m.stmt != nil {
		return m.stmt(s)
	}
	return s
}

// ---------------------------------------------------------------------------

func sel(pkg, name string) ast.Expr {
	return &ast.SelectorExpr{X: ast.NewIdent(pkg), Sel: ast.NewIdent(name)}
}

func call(fn ast.Expr, args ...ast.Expr) *ast.CallExpr { return &ast.CallExpr{Fun: fn, Args: args} }

func exprString(fset *token.FileSet, e ast.Node) string {
	var b bytes.Buffer
	printer.Fprint(&b, fset, e)
	return b.String()
}

// rewriteConc rewrites go statements and channel operations. Returns the number of rewrites.
func rewriteConc(fset *token.FileSet, f *ast.File, r rw) (int, error) {
	m := &mapper{fset: fset}
	rangeChans := map[string]bool{}
	for _, rc := range r.RangeChans {
		rangeChans[rc] = true
	}
	m.preStmt = func(s ast.Stmt) bool {
		if !r.Chan {
			return false
		}
		// v, ok := <-ch   /  v, ok = <-ch
		if as, ok := s.(*ast.AssignStmt); ok && len(as.Lhs) == 2 && len(as.Rhs) == 1 {
			if u, ok := as.Rhs[0].(*ast.UnaryExpr); ok && u.Op == token.ARROW {
				u.X = m.mapExpr(u.X)
				as.Rhs[0] = call(sel("zzvsched", "RecvOK"), u.X)
				for i := range as.Lhs {
					as.Lhs[i] = m.mapExpr(as.Lhs[i])
				}
				m.count++
				return true
			}
		}
		return false
	}
	m.expr = func(e ast.Expr) ast.Expr {
		if !r.Chan {
			return e
		}
		if u, ok := e.(*ast.UnaryExpr); ok && u.Op == token.ARROW {
			m.count++
			return call(sel("zzvsched", "Recv"), u.X)
		}
		return e
	}
	m.stmt = func(s ast.Stmt) ast.Stmt {
		switch x := s.(type) {
		case *ast.GoStmt:
			if !r.Go {
				return s
			}
			m.count++
			var fn ast.Expr
			if fl, ok := x.Call.Fun.(*ast.FuncLit); ok && len(x.Call.Args) == 0 && (fl.Type.Results == nil || len(fl.Type.Results.List) == 0) {
				fn = fl
			} else {
				fn = &ast.FuncLit{Type: &ast.FuncType{Params: &ast.FieldList{}}, Body: &ast.BlockStmt{List: []ast.Stmt{&ast.ExprStmt{X: x.Call}}}}
			}
			return &ast.ExprStmt{X: call(sel("zzvsched", "Go"), &ast.BasicLit{Kind: token.STRING, Value: fmt.Sprintf("%q", shortPos(fset, x.Pos())+" "+trunc(exprString(fset, x.Call.Fun), 40))}, fn)}
		case *ast.SendStmt:
			if !r.Chan {
				return s
			}
			m.count++
			return &ast.ExprStmt{X: call(sel("zzvsched", "Send"), x.Chan, x.Value)}
		case *ast.RangeStmt:
			if !r.Chan || !rangeChans[exprString(fset, x.X)] {
				return s
			}
			m.count++
			// for k := range ch { body }  ->  for { k, ok := RecvOK(ch); if !ok { break }; body }
			okID := ast.NewIdent(fmt.Sprintf("_vs_ok%d", m.count))
			var lhs ast.Expr = ast.NewIdent("_")
			tok := token.DEFINE
			if x.Key != nil {
				lhs = x.Key
				tok = x.Tok
			}
			if tok == token.ASSIGN {
				// cannot mix := for ok with = for key: declare ok first
				tok = token.ASSIGN
			}
			var pre []ast.Stmt
			if tok == token.ASSIGN {
				pre = append(pre, &ast.DeclStmt{Decl: &ast.GenDecl{Tok: token.VAR, Specs: []ast.Spec{&ast.ValueSpec{Names: []*ast.Ident{okID}, Type: ast.NewIdent("bool")}}}})
			}
			recv := &ast.AssignStmt{Lhs: []ast.Expr{lhs, okID}, Tok: tok, Rhs: []ast.Expr{call(sel("zzvsched", "RecvOK"), x.X)}}
			brk := &ast.IfStmt{Cond: &ast.UnaryExpr{Op: token.NOT, X: okID}, Body: &ast.BlockStmt{List: []ast.Stmt{&ast.BranchStmt{Tok: token.BREAK}}}}
			body := append(append(pre, recv, brk), x.Body.List...)
			return &ast.ForStmt{Body: &ast.BlockStmt{List: body}}
		case *ast.SelectStmt:
			if !r.Chan {
				return s
			}
			m.count++
			m.selectID++
			out, err := rewriteSelect(fset, x, m.selectID)
			if err != nil && m.err == nil {
				m.err = err
			}
			return out
		}
		return s
	}
	for _, d := range f.Decls {
		m.node(d)
	}
	if m.err != nil {
		return 0, m.err
	}
	seen := map[string]bool{}
	if r.Chan {
		// every configured range-over-channel must have matched
		ast.Inspect(f, func(n ast.Node) bool { return true })
	}
	_ = seen
	return m.count, nil
}

func shortPos(fset *token.FileSet, p token.Pos) string {
	pos := fset.Position(p)
	fn := pos.Filename
	if i := strings.LastIndex(fn, "/"); i >= 0 {
		fn = fn[i+1:]
	}
	return fmt.Sprintf("%s:%d", fn, pos.Line)
}

func trunc(s string, n int) string {
	s = strings.Join(strings.Fields(s), " ")
	if len(s) > n {
		return s[:n]
	}
	return s
}

// rewriteSelect turns a select into: hoisted channel operands + a scheduler-decided case index +
// a switch that performs exactly that (now non-blocking) communication and runs the original body.
func rewriteSelect(fset *token.FileSet, s *ast.SelectStmt, id int) (ast.Stmt, error) {
	var pre []ast.Stmt
	var readyCases []ast.Stmt
	var swCases []ast.Stmt
	hasDefault := false
	idx := 0
	for _, c := range s.Body.List {
		cc := c.(*ast.CommClause)
		if cc.Comm == nil {
			hasDefault = true
			swCases = append(swCases, &ast.CaseClause{List: nil, Body: cc.Body})
			continue
		}
		cv := ast.NewIdent(fmt.Sprintf("_vs%d_c%d", id, idx))
		var chanExpr ast.Expr
		var comm ast.Stmt
		var ready ast.Expr
		switch x := cc.Comm.(type) {
		case *ast.SendStmt:
			vv := ast.NewIdent(fmt.Sprintf("_vs%d_v%d", id, idx))
			chanExpr = x.Chan
			pre = append(pre, &ast.AssignStmt{Lhs: []ast.Expr{vv}, Tok: token.DEFINE, Rhs: []ast.Expr{call(sel("zzvsched", "ValueFor"), x.Chan, x.Value)}})
			comm = &ast.SendStmt{Chan: cv, Value: vv}
			ready = call(sel("zzvsched", "CanSend"), cv)
		case *ast.ExprStmt:
			u, ok := x.X.(*ast.UnaryExpr)
			if !ok || u.Op != token.ARROW {
				return nil, fmt.Errorf("%s: unsupported select comm", shortPos(fset, x.Pos()))
			}
			chanExpr = u.X
			comm = &ast.ExprStmt{X: &ast.UnaryExpr{Op: token.ARROW, X: cv}}
			ready = call(sel("zzvsched", "CanRecv"), cv)
		case *ast.AssignStmt:
			if len(x.Rhs) != 1 {
				return nil, fmt.Errorf("%s: unsupported select comm", shortPos(fset, x.Pos()))
			}
			u, ok := x.Rhs[0].(*ast.UnaryExpr)
			if !ok || u.Op != token.ARROW {
				return nil, fmt.Errorf("%s: unsupported select comm", shortPos(fset, x.Pos()))
			}
			chanExpr = u.X
			comm = &ast.AssignStmt{Lhs: x.Lhs, Tok: x.Tok, Rhs: []ast.Expr{&ast.UnaryExpr{Op: token.ARROW, X: cv}}}
			ready = call(sel("zzvsched", "CanRecv"), cv)
		default:
			return nil, fmt.Errorf("%s: unsupported select comm %T", shortPos(fset, cc.Pos()), cc.Comm)
		}
		pre = append(pre, &ast.AssignStmt{Lhs: []ast.Expr{cv}, Tok: token.DEFINE, Rhs: []ast.Expr{chanExpr}})
		readyCases = append(readyCases, &ast.CaseClause{List: []ast.Expr{&ast.BasicLit{Kind: token.INT, Value: fmt.Sprint(idx)}},
			Body: []ast.Stmt{&ast.ReturnStmt{Results: []ast.Expr{ready}}}})
		body := append([]ast.Stmt{comm}, cc.Body...)
		// a `x := <-c` whose x is unused in the body was legal in a select; keep it legal in the switch
		if as, ok := comm.(*ast.AssignStmt); ok && as.Tok == token.DEFINE {
			for _, l := range as.Lhs {
				if id, ok := l.(*ast.Ident); ok && id.Name != "_" {
					body = append([]ast.Stmt{body[0], &ast.AssignStmt{Lhs: []ast.Expr{ast.NewIdent("_")}, Tok: token.ASSIGN, Rhs: []ast.Expr{ast.NewIdent(id.Name)}}}, body[1:]...)
				}
			}
		}
		swCases = append(swCases, &ast.CaseClause{List: []ast.Expr{&ast.BasicLit{Kind: token.INT, Value: fmt.Sprint(idx)}}, Body: body})
		idx++
	}
	if !hasDefault {
		// a select whose every case ends in return/panic is a terminating statement; keep the generated
		// switch terminating too (Select never returns an index outside the cases)
		swCases = append(swCases, &ast.CaseClause{List: nil, Body: []ast.Stmt{&ast.ExprStmt{X: call(ast.NewIdent("panic"), &ast.BasicLit{Kind: token.STRING, Value: `"vsched: select index out of range"`})}}})
	}
	iv := ast.NewIdent(fmt.Sprintf("_vs%d_i", id))
	readyFn := &ast.FuncLit{
		Type: &ast.FuncType{Params: &ast.FieldList{List: []*ast.Field{{Names: []*ast.Ident{iv}, Type: ast.NewIdent("int")}}},
			Results: &ast.FieldList{List: []*ast.Field{{Type: ast.NewIdent("bool")}}}},
		Body: &ast.BlockStmt{List: []ast.Stmt{
			&ast.SwitchStmt{Tag: iv, Body: &ast.BlockStmt{List: readyCases}},
			&ast.ReturnStmt{Results: []ast.Expr{ast.NewIdent("false")}},
		}},
	}
	def := "false"
	if hasDefault {
		def = "true"
	}
	site := &ast.BasicLit{Kind: token.STRING, Value: fmt.Sprintf("%q", shortPos(fset, s.Pos())+" select")}
	sw := &ast.SwitchStmt{
		Tag:  call(sel("zzvsched", "Select"), site, ast.NewIdent(def), &ast.BasicLit{Kind: token.INT, Value: fmt.Sprint(idx)}, readyFn),
		Body: &ast.BlockStmt{List: swCases},
	}
	return &ast.BlockStmt{List: append(pre, sw)}, nil
}

// insertPoints inserts `zzvsched.Point("name")` before statements whose printed form starts with p.Before.
func insertPoints(fset *token.FileSet, f *ast.File, p point) int {
	n := 0
	for _, d := range f.Decls {
		fd, ok := d.(*ast.FuncDecl)
		if !ok || fd.Body == nil || (p.Func != "" && fd.Name.Name != p.Func) {
			continue
		}
		var walk func(list []ast.Stmt) []ast.Stmt
		walk = func(list []ast.Stmt) []ast.Stmt {
			var out []ast.Stmt
			for _, s := range list {
				if strings.HasPrefix(trunc(exprString(fset, s), 400), p.Before) {
					out = append(out, &ast.ExprStmt{X: call(sel("zzvsched", "Point"), &ast.BasicLit{Kind: token.STRING, Value: fmt.Sprintf("%q", p.Name)})})
					n++
				}
				ast.Inspect(s, func(nn ast.Node) bool {
					switch b := nn.(type) {
					case *ast.BlockStmt:
						b.List = walk(b.List)
						return false
					case *ast.CaseClause:
						b.Body = walk(b.Body)
						return false
					case *ast.CommClause:
						b.Body = walk(b.Body)
						return false
					}
					return true
				})
				out = append(out, s)
			}
			return out
		}
		fd.Body.List = walk(fd.Body.List)
	}
	return n
}

func rewriteOS(f *ast.File) bool { return false }

// rewriteTime redirects the clock-reading and timer-creating members of package time to vclock.
// Pure value types and constants (Duration, Time, Hour, Unix...) stay with package time.
func rewriteTime(f *ast.File) bool {
	local := ""
	for _, im := range f.Imports {
		if im.Path.Value == `"time"` {
			local = "time"
			if im.Name != nil {
				local = im.Name.Name
			}
		}
	}
	if local == "" || local == "_" || local == "." {
		return false
	}
	moved := map[string]bool{"Now": true, "Since": true, "Until": true, "NewTimer": true, "NewTicker": true, "After": true,
		"AfterFunc": true, "Sleep": true, "Tick": true, "Timer": true, "Ticker": true}
	n := 0
	m := &mapper{}
	m.expr = func(e ast.Expr) ast.Expr {
		if se, ok := e.(*ast.SelectorExpr); ok {
			if id, ok := se.X.(*ast.Ident); ok && id.Name == local && id.Obj == nil && moved[se.Sel.Name] {
				n++
				return &ast.SelectorExpr{X: ast.NewIdent("zzvclock"), Sel: se.Sel}
			}
		}
		return e
	}
	for _, d := range f.Decls {
		m.node(d)
	}
	if n > 0 {
		addImport(f, "zzvclock", shim+"vclock")
		// keep the original import used even if every reference moved
		f.Decls = append(f.Decls, &ast.GenDecl{Tok: token.VAR, Specs: []ast.Spec{&ast.ValueSpec{Names: []*ast.Ident{ast.NewIdent("_")}, Values: []ast.Expr{sel(local, "Nanosecond")}}}})
	}
	return n > 0
}
