module overlaygen

go 1.26
