package main

import (
	"fmt"
	"go/ast"
	"go/parser"
	"go/token"
	"strings"
)

// extraction lifts a piece of code that lives inside a huge function (cmd/arc main()) into a callable
// top-level function, mechanically from the CURRENT source, so that the harness runs the repository's
// own statements. The free variables of the piece become parameters (names and types are given by the
// config; if upstream changes them the generated file no longer compiles and the check reports
// HARNESS-UNBOUND instead of running a stale copy).
type extraction struct {
	File   string `json:"file"`
	Name   string `json:"name"`   // name of the generated function
	Kind   string `json:"kind"`   // "select-case-body" | "call-arg-funclit"
	Marker string `json:"marker"` // select-case-body: text that must occur in the enclosing func literal; call-arg-funclit: first string argument
	Case   string `json:"case"`   // select-case-body: printed form of the case communication, e.g. "<-ticker.C"
	Call   string `json:"call"`   // call-arg-funclit: selector name, e.g. "RegisterHook"
	Params string `json:"params"` // Go parameter list source, e.g. "a *T, b time.Duration"
}

func applyExtractions(fset *token.FileSet, f *ast.File, base string, exs []extraction, hits map[string]int) (bool, error) {
	changed := false
	for _, ex := range exs {
		if ex.File != base {
			continue
		}
		params, err := parseParams(ex.Params)
		if err != nil {
			return false, fmt.Errorf("extraction %s: params: %v", ex.Name, err)
		}
		switch ex.Kind {
		case "select-case-body":
			var body []ast.Stmt
			n := 0
			ast.Inspect(f, func(nd ast.Node) bool {
				fl, ok := nd.(*ast.FuncLit)
				if !ok || !strings.Contains(exprString(fset, fl), ex.Marker) {
					return true
				}
				ast.Inspect(fl.Body, func(x ast.Node) bool {
					if inner, ok := x.(*ast.FuncLit); ok && inner != fl {
						return false
					}
					if cc, ok := x.(*ast.CommClause); ok && cc.Comm != nil && trunc(exprString(fset, cc.Comm), 200) == ex.Case {
						body = cc.Body
						n++
					}
					return true
				})
				return false
			})
			if n != 1 {
				return false, fmt.Errorf("extraction %s: %d matches for case %q in a func literal containing %q, want 1", ex.Name, n, ex.Case, ex.Marker)
			}
			f.Decls = append(f.Decls, &ast.FuncDecl{Name: ast.NewIdent(ex.Name), Type: &ast.FuncType{Params: params}, Body: &ast.BlockStmt{List: body}})
			hits[ex.Name]++
			changed = true
		case "call-arg-funclit":
			var fl *ast.FuncLit
			var prio ast.Expr
			n := 0
			ast.Inspect(f, func(nd ast.Node) bool {
				c, ok := nd.(*ast.CallExpr)
				if !ok || len(c.Args) < 2 {
					return true
				}
				se, ok := c.Fun.(*ast.SelectorExpr)
				if !ok || se.Sel.Name != ex.Call {
					return true
				}
				if bl, ok := c.Args[0].(*ast.BasicLit); !ok || bl.Value != fmt.Sprintf("%q", ex.Marker) {
					return true
				}
				if l, ok := c.Args[1].(*ast.FuncLit); ok {
					fl = l
					if len(c.Args) > 2 {
						prio = c.Args[2]
					}
					n++
				}
				return true
			})
			if n != 1 {
				return false, fmt.Errorf("extraction %s: %d calls %s(%q, func...), want 1", ex.Name, n, ex.Call, ex.Marker)
			}
			// func Name(params) <funclit type> { return <funclit> }
			f.Decls = append(f.Decls, &ast.FuncDecl{Name: ast.NewIdent(ex.Name), Type: &ast.FuncType{Params: params,
				Results: &ast.FieldList{List: []*ast.Field{{Type: fl.Type}}}},
				Body: &ast.BlockStmt{List: []ast.Stmt{&ast.ReturnStmt{Results: []ast.Expr{fl}}}}})
			if prio != nil {
				f.Decls = append(f.Decls, &ast.GenDecl{Tok: token.VAR, Specs: []ast.Spec{&ast.ValueSpec{Names: []*ast.Ident{ast.NewIdent(ex.Name + "Priority")}, Values: []ast.Expr{prio}}}})
			}
			hits[ex.Name]++
			changed = true
		default:
			return false, fmt.Errorf("extraction %s: unknown kind %q", ex.Name, ex.Kind)
		}
	}
	return changed, nil
}

func parseParams(src string) (*ast.FieldList, error) {
	e, err := parser.ParseExpr("func(" + src + "){}")
	if err != nil {
		return nil, err
	}
	return e.(*ast.FuncLit).Type.Params, nil
}
