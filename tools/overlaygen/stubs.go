package main

import (
	"go/ast"
	"go/token"
)

func rewriteTime(f *ast.File) bool { return false }
func rewriteOS(f *ast.File) bool   { return false }
func rewriteConc(fset *token.FileSet, f *ast.File, r rw) (int, error) { return 0, nil }
func insertPoints(fset *token.FileSet, f *ast.File, p point) int { return 0 }
