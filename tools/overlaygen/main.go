// overlaygen builds a `go build -overlay` JSON from the CURRENT /repo working tree.
// It never copies logic: it only (a) adds in-package accessor files and (b) mechanically
// rewrites files of named packages (import swaps, goroutine spawns, channel operations,
// clock calls) so that the harness scheduler sees every synchronisation step.
//
// usage: overlaygen -cfg <cfg.json> -out <overlay.json> -work <dir>
// cfg: {"add": {"<pkg dir rel to /repo>": ["<file rel to /verif/harness>", ...]},
//
//	"rewrite": {"<pkg dir>": {"sync":true,"atomic":true,"go":true,"chan":true,"time":true,"files":["a.go"]}},
//	"replace": {"<file rel to /repo>": "<file rel to /verif/harness>"}}
package main

import (
	"encoding/json"
	"flag"
	"fmt"
	"os"
	"path/filepath"
	"sort"
	"strings"
)

type rw struct {
	Sync       bool              `json:"sync"`
	Atomic     bool              `json:"atomic"`
	Go         bool              `json:"go"`
	Chan       bool              `json:"chan"`
	Time       bool              `json:"time"`
	OS         bool              `json:"os"`
	Files      []string          `json:"files"`          // empty = all non-test files
	SQL        bool              `json:"sql"`            // swap database/sql for the vsql shim (models the connection pool)
	ConstSet   map[string]string `json:"const_override"` // package-level const name -> replacement literal (test-time parameter, e.g. hash iterations)
	Extract    []extraction      `json:"extract"`
	SyncKeep   []string          `json:"sync_keep"`      // struct type names whose sync.* fields stay REAL (leaf locks of caches: invisible to the scheduler)
	RangeChans []string          `json:"range_chans"`    // printed expressions of channels ranged over (no type info available)
	Points     []point           `json:"points"`         // named scheduling points inserted before a statement matching text
}

type point struct {
	File   string `json:"file"`
	Func   string `json:"func"`   // enclosing function name (optional)
	Before string `json:"before"` // printed statement prefix to match
	Name   string `json:"name"`
	Count  int    `json:"count"` // expected matches (default 1)
}

type cfg struct {
	Add     map[string][]string `json:"add"`
	Rewrite map[string]rw       `json:"rewrite"`
	Replace map[string]string   `json:"replace"`
}

const repo = "/repo"
const harness = "/verif/harness"

var constHits map[string]int
var extractHits = map[string]int{}

func die(format string, a ...any) {
	fmt.Printf("HARNESS-UNBOUND: overlaygen: "+format+"\n", a...)
	os.Exit(2)
}

func main() {
	cfgPath := flag.String("cfg", "", "")
	out := flag.String("out", "", "")
	work := flag.String("work", "", "")
	flag.Parse()
	b, err := os.ReadFile(*cfgPath)
	if err != nil {
		die("%v", err)
	}
	var c cfg
	if err := json.Unmarshal(b, &c); err != nil {
		die("cfg: %v", err)
	}
	os.RemoveAll(*work)
	os.MkdirAll(*work, 0o755)
	replace := map[string]string{}
	constHits = map[string]int{}
	for pkg, files := range c.Add {
		if st, err := os.Stat(filepath.Join(repo, pkg)); err != nil || !st.IsDir() {
			die("package dir %s missing", pkg)
		}
		for _, f := range files {
			src := filepath.Join(harness, f)
			if _, err := os.Stat(src); err != nil {
				die("add file %s: %v", src, err)
			}
			dst := filepath.Join(repo, pkg, filepath.Base(f))
			if _, err := os.Stat(dst); err == nil {
				die("add target %s already exists in repo", dst)
			}
			replace[dst] = src
		}
	}
	// VERIF_REPLACE="repo/rel/file.go=/abs/replacement.go,..." : run a check against a variant of the
	// repository (a seeded change, a candidate fix) without touching /repo
	if env := os.Getenv("VERIF_REPLACE"); env != "" {
		if c.Replace == nil {
			c.Replace = map[string]string{}
		}
		for _, kv := range strings.Split(env, ",") {
			p := strings.SplitN(kv, "=", 2)
			if len(p) == 2 {
				c.Replace[p[0]] = p[1]
			}
		}
	}
	for dst, src := range c.Replace {
		if !filepath.IsAbs(src) {
			src = filepath.Join(harness, src)
		}
		if _, err := os.Stat(src); err != nil {
			die("replace source %s: %v", src, err)
		}
		replace[filepath.Join(repo, dst)] = src
	}
	pkgs := make([]string, 0, len(c.Rewrite))
	for p := range c.Rewrite {
		pkgs = append(pkgs, p)
	}
	sort.Strings(pkgs)
	for _, pkg := range pkgs {
		r := c.Rewrite[pkg]
		dir := filepath.Join(repo, pkg)
		ents, err := os.ReadDir(dir)
		if err != nil {
			die("%v", err)
		}
		want := map[string]bool{}
		for _, f := range r.Files {
			want[f] = true
		}
		seen := map[string]bool{}
		pointHits := map[int]int{}
		for _, e := range ents {
			n := e.Name()
			if e.IsDir() || !strings.HasSuffix(n, ".go") || strings.HasSuffix(n, "_test.go") {
				continue
			}
			if len(want) > 0 && !want[n] {
				continue
			}
			seen[n] = true
			src := filepath.Join(dir, n)
			in := src
			if rep, ok := replace[src]; ok {
				in = rep // a replaced file (mutation / candidate fix) is instrumented like the original
			}
			outp := filepath.Join(*work, strings.ReplaceAll(pkg, "/", "_")+"__"+n)
			changed, err := rewriteFile(in, outp, r, pointHits, pkg)
			if err != nil {
				die("rewrite %s: %v", in, err)
			}
			if changed {
				replace[src] = outp
			}
		}
		for f := range want {
			if !seen[f] {
				die("rewrite file %s/%s missing", pkg, f)
			}
		}
		for _, ex := range r.Extract {
			if extractHits[ex.Name] != 1 {
				die("extraction %s in %s: %d matches, want 1", ex.Name, pkg, extractHits[ex.Name])
			}
		}
		for name := range r.ConstSet {
			if constHits[pkg+"."+name] != 1 {
				die("const_override %s in %s: %d matches, want 1", name, pkg, constHits[pkg+"."+name])
			}
		}
		for i, p := range r.Points {
			exp := p.Count
			if exp == 0 {
				exp = 1
			}
			if pointHits[i] != exp {
				die("point %q (%s:%s before %q): %d matches, want %d", p.Name, p.File, p.Func, p.Before, pointHits[i], exp)
			}
		}
	}
	ob, _ := json.MarshalIndent(map[string]any{"Replace": replace}, "", " ")
	if err := os.WriteFile(*out, ob, 0o644); err != nil {
		die("%v", err)
	}
}
