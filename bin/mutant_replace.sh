#!/bin/bash
# usage: eval $(bin/mutant_replace.sh <worktree-with-change-applied>)  -> exports VERIF_REPLACE for ./check
# Lists the files that differ from HEAD in the given worktree and maps them onto /repo via the overlay.
wt="$1"
r=""
for f in $(git -C "$wt" diff --name-only HEAD; git -C "$wt" ls-files --others --exclude-standard | grep '\.go$' | grep -v '^_seeded/'); do
  case "$f" in *_test.go) continue;; esac
  r="$r${r:+,}$f=$wt/$f"
done
echo "export VERIF_REPLACE='$r'"
