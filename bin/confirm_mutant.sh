#!/bin/bash
# usage: bin/confirm_mutant.sh <ID> <worktree> <pkgdir for demo> <test -run regex> [extra test pkgs...]
# Confirms in the scratch worktree: builds, demo FAILS with the change and PASSES without it, existing tests of the
# touched packages pass with the change; then stores patch.diff, demo and meta.json under /verif/seeded/<ID>/.
. /verif/bin/env.sh
ID=$1; WT=$2; PKG=$3; RUN=$4; shift 4
cd "$WT" || exit 1
out=/verif/seeded/$ID; mkdir -p $out
git diff HEAD -- . ':(exclude)_seeded' > $out/patch.diff
[ -s $out/patch.diff ] || { echo "empty patch"; exit 1; }
cp _seeded/demo_test.go $PKG/zz_seeded_demo_test.go
echo "== build"; go build ./... || { echo BUILD-FAIL; exit 1; }
echo "== demo WITH change (expect FAIL)"; go test ${TAGS:+-tags $TAGS} -count=1 -run "$RUN" ./$PKG/ > /tmp/cm_with.log 2>&1; with=$?; tail -4 /tmp/cm_with.log
git apply -R $out/patch.diff || exit 1
echo "== demo WITHOUT change (expect ok)"; go test ${TAGS:+-tags $TAGS} -count=1 -run "$RUN" ./$PKG/ > /tmp/cm_without.log 2>&1; without=$?; tail -2 /tmp/cm_without.log
git apply $out/patch.diff
rm -f $PKG/zz_seeded_demo_test.go
echo "== existing tests with change"; pk="./$PKG/ $@"; go test ${TAGS:+-tags $TAGS} -count=1 $pk > /tmp/cm_tests.log 2>&1; tests=$?; tail -5 /tmp/cm_tests.log
cp _seeded/demo_test.go $out/demo_test.go
python3 - "$ID" "$with" "$without" "$tests" "$PKG" "$RUN" "$pk" <<'PY'
import json,sys
ID,with_,without,tests,pkg,run,pk=sys.argv[1:8]
m=json.load(open('_seeded/meta.json'))
m['confirmed_by_lead']={'demo_with_change_exit':int(with_),'demo_without_change_exit':int(without),'existing_tests_with_change_exit':int(tests),
  'demo_cmd':'cp demo_test.go %s/ && go test -count=1 -run %s ./%s/'%(pkg,run,pkg),'existing_tests_cmd':'go test -count=1 '+pk}
json.dump(m,open('/verif/seeded/%s/meta.json'%ID,'w'),indent=1)
print('RESULT with=%s without=%s tests=%s'%(with_,without,tests))
PY
