#!/bin/bash
# usage: bin/run_thorough_all.sh ID...   -> runs each thorough tier sequentially, one summary line per check in /verif/.build/thorough.log
cd /verif
mkdir -p .build
for id in "$@"; do
  echo "START $id $(date +%H:%M:%S)" >> .build/thorough.log
  echo "$id" > .build/thorough.running
  t0=$(date +%s)
  timeout 55m ./check $id thorough > .build/thorough_$id.out 2>&1; rc=$?
  t1=$(date +%s)
  nv=$(grep -c '^VIOLATION' .build/thorough_$id.out)
  nk=$(grep -c '^KNOWN-FINDING' .build/thorough_$id.out)
  ex=$(python3 -c "import json;print(json.load(open('/verif/evidence/$id.json'))['coverage'].get('exhaustive'))" 2>/dev/null)
  echo "DONE $id rc=$rc wall=$((t1-t0))s violations=$nv known=$nk exhaustive=$ex" >> .build/thorough.log
  rm -f .build/thorough.running
done
echo "ALL-DONE $(date +%H:%M:%S)" >> .build/thorough.log
