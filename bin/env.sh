# sourced by every script: offline Go toolchain environment
export PATH=/root/go/pkg/mod/golang.org/toolchain@v0.0.1-go1.26.4.linux-amd64/bin:$PATH
export GOTOOLCHAIN=local GOFLAGS=-mod=mod GOPROXY=off GOSUMDB=off GONOSUMDB='*' CGO_ENABLED=1
export VERIF_ROOT=/verif
export VERIF_BUILD=/verif/.build
mkdir -p "$VERIF_BUILD/bin" "$VERIF_BUILD/ov"
