#!/usr/bin/env python3
"""Regenerates the generated part of DESIGN.md §13 (between the GEN markers) from bin/checks.json,
known_findings.json, seeded/*/meta.json and evidence/*.json, so the tables cannot drift from what is registered."""
import json, os, re, glob

V = '/verif'
checks = json.load(open(f'{V}/bin/checks.json'))
kf = json.load(open(f'{V}/known_findings.json'))
props = {}
for l in open(f'{V}/properties.jsonl'):
    d = json.loads(l)
    props[d['id']] = d['title']

out = []
out.append('### 13.4 Checks as registered (generated from bin/checks.json and the last evidence files)\n')
out.append('| id | level | deciding technique | last quick run (evidence) |')
out.append('|---|---|---|---|')
for cid in sorted(checks):
    c = checks[cid]
    evs = ''
    p = f'{V}/evidence/{cid}.json'
    if os.path.exists(p):
        try:
            e = json.load(open(p))
            cov = e.get('coverage', {})
            keys = [k for k in ('evaluations', 'distinct_nontrivial', 'states', 'transitions', 'traces_validated_against_impl', 'schedules', 'exhaustive') if k in cov]
            evs = ', '.join(f'{k}={cov[k]}' for k in keys)
        except Exception as ex:
            evs = f'(unreadable: {ex})'
    tech = c['technique'].replace('|', '\\|')
    out.append(f"| {cid} | {c['category']} | {tech} | {evs} |")
out.append('')

out.append('### 13.5 Genuine defects: repaired (`fix:` commits) and recorded (known findings) — generated from known_findings.json\n')
out.append('Repaired (each is one unguarded `fix:` commit in /repo; the existing suite passes with all of them):\n')
for f in kf['fixed']:
    out.append('* ' + f.replace('fixed: ', '', 1))
out.append('')
out.append('Recorded, not repaired (the check prints KNOWN-FINDING and exits 0; any other signature is a VIOLATION):\n')
for f in kf['findings']:
    out.append(f"* **{f['property']}** `{f.get('sig_regex') or f.get('signature')}` — {f['what']}")
out.append('')

out.append('### 13.6 Seeded property-breaking changes and which check catches them — generated from seeded/*/meta.json\n')
out.append('Each change was written by a fresh sub-agent that saw only the property text and a scratch worktree; it compiles, the '
           'existing tests of the touched packages pass with it, and its own demonstration fails with it and passes without it '
           '(all re-confirmed by the lead in the scratch worktree, `confirmed_by_lead`). The checks were run against it through the overlay '
           '(`VERIF_REPLACE`, /repo untouched). "missed at first" entries say how the check was strengthened.\n')
out.append('| property | change (one line) | needs | caught by | detection |')
out.append('|---|---|---|---|---|')
def one(s, n=220):
    s = re.sub(r'\s+', ' ', str(s)).replace('|', '\\|')
    return s if len(s) <= n else s[:n - 1] + '…'
for p in sorted(glob.glob(f'{V}/seeded/*/meta.json')):
    m = json.load(open(p))
    sid = os.path.basename(os.path.dirname(p))
    out.append(f"| {sid} | {one(m.get('summary',''))} | {one(m.get('needs_to_manifest',''),160)} | {m.get('caught_by_check','(not yet run)')} | {one(m.get('detection',''),400)} |")
out.append('')

s = open(f'{V}/DESIGN.md').read()
b, e = '<!-- GEN:BEGIN -->', '<!-- GEN:END -->'
gen = b + '\n' + '\n'.join(out) + '\n' + e
if b in s:
    s = s[:s.index(b)] + gen + s[s.index(e) + len(e):]
else:
    s = s.rstrip('\n') + '\n\n' + gen + '\n'
open(f'{V}/DESIGN.md', 'w').write(s)
print('DESIGN.md tables regenerated:', len(checks), 'checks,', len(kf['fixed']), 'fixed,', len(kf['findings']), 'findings')
