#!/bin/bash
# validate MANIFEST.json and every evidence file against the schemas
python3-vt - <<'PY'
import json,glob,jsonschema,sys
ok=True
jsonschema.validate(json.load(open('/verif/MANIFEST.json')), json.load(open('/root/.vp/MANIFEST.schema.json')))
print('manifest valid')
es=json.load(open('/root/.vp/EVIDENCE.schema.json'))
for f in sorted(glob.glob('/verif/evidence/*.json')):
    try:
        jsonschema.validate(json.load(open(f)), es); print('ok', f)
    except Exception as e:
        ok=False; print('INVALID', f, str(e)[:300])
sys.exit(0 if ok else 1)
PY
