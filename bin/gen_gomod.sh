#!/bin/bash
# Generate /verif/harness/go.mod from /repo/go.mod so the build list is identical to the repository's.
# Serialised with flock and published with an atomic rename: checks run concurrently.
set -euo pipefail
. /verif/bin/env.sh
cd /verif/harness
exec 9>/verif/.build/gomod.lock
flock 9
tmp=$(mktemp go.mod.XXXXXX)
sed -e 's#^module github.com/basekick-labs/arc$#module github.com/basekick-labs/arc/zzverif#' /repo/go.mod > "$tmp"
cat >> "$tmp" <<'EOT'

require github.com/basekick-labs/arc v0.0.0
replace github.com/basekick-labs/arc => /repo
EOT
grep -q '^module github.com/basekick-labs/arc/zzverif$' "$tmp" || { rm -f "$tmp"; echo "gen_gomod: /repo/go.mod has no module line"; exit 1; }
if ! cmp -s "$tmp" go.mod 2>/dev/null; then mv "$tmp" go.mod; else rm -f "$tmp"; fi
if ! cmp -s /repo/go.sum go.sum 2>/dev/null; then cp /repo/go.sum go.sum.tmp && mv go.sum.tmp go.sum; fi
