#!/bin/bash
# Generate /verif/harness/go.mod from /repo/go.mod so the build list is identical to the repository's.
set -euo pipefail
. /verif/bin/env.sh
cd /verif/harness
sed -e 's#^module github.com/basekick-labs/arc$#module github.com/basekick-labs/arc/zzverif#' /repo/go.mod > go.mod.new
cat >> go.mod.new <<'EOT'

require github.com/basekick-labs/arc v0.0.0
replace github.com/basekick-labs/arc => /repo
EOT
if ! cmp -s go.mod.new go.mod 2>/dev/null; then mv go.mod.new go.mod; else rm go.mod.new; fi
cmp -s /repo/go.sum go.sum 2>/dev/null || cp /repo/go.sum go.sum
