#!/bin/bash
# usage: bin/try_mutant.sh <CHECK-ID> <worktree> [n]  -> runs the check against the seeded change via overlay replace
eval $(/verif/bin/mutant_replace.sh "$2")
echo "VERIF_REPLACE=$VERIF_REPLACE"
cd /verif && ./check "$1" quick 2>&1 | grep "^VIOLATION\|^$1 tier=\|^HARNESS" | head -${3:-4} | cut -c1-260
