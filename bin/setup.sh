#!/bin/bash
# Run once after a fresh restore, offline: generate go.mod, build overlaygen, pre-build every check binary
# (warms the Go build cache so quick commands only re-link when /repo changed).
set -uo pipefail
. /verif/bin/env.sh
/verif/bin/gen_gomod.sh || exit 1
(cd /verif/tools/overlaygen && go build -o $VERIF_BUILD/bin/overlaygen .) || exit 1
rc=0
ls /verif/harness/checks | xargs -P 4 -I{} bash -c 'VERIF_BUILD_ONLY=1 /verif/check {} quick >/dev/null 2>&1 || echo "setup: build of {} failed"' | tee $VERIF_BUILD/setup.log
grep -q failed $VERIF_BUILD/setup.log && rc=1
exit $rc
