#!/bin/bash
# Run once after a fresh restore, offline: generate go.mod, build overlaygen, pre-build the binary of every
# check registered in MANIFEST.json (warms the Go build cache so quick commands only re-link when /repo changed).
# A check that does not build here reports HARNESS-UNBOUND (exit 2) from its own command; setup itself only
# fails if the core tooling cannot be built.
set -uo pipefail
. /verif/bin/env.sh
/verif/bin/gen_gomod.sh || exit 1
(cd /verif/tools/overlaygen && go build -o $VERIF_BUILD/bin/overlaygen .) || exit 1
ids=$(python3 -c "import json;print(' '.join(c['property_id'] for c in json.load(open('/verif/MANIFEST.json'))['checks']))")
: > $VERIF_BUILD/setup.log
for id in $ids; do echo $id; done | xargs -P 4 -I{} bash -c 'VERIF_BUILD_ONLY=1 /verif/check {} quick >/dev/null 2>&1 || echo "setup: warning: build of {} failed" >> /verif/.build/setup.log'
cat $VERIF_BUILD/setup.log
exit 0
