#!/usr/bin/env python3
"""Generates /verif/MANIFEST.json from the table below (kept in one place so the file is always schema-valid)."""
import json, os, sys

CHECKS = json.load(open('/verif/bin/checks.json'))

def main():
    checks = []
    for pid in sorted(CHECKS):
        c = CHECKS[pid]; eng, cat, tech, text, note, ref = c['engine'], c['category'], c['technique'], c['text'], c['note'], c['ref']
        checks.append({
            "property_id": pid,
            "quick_cmd": f"./check {pid} quick",
            "thorough_cmd": f"./check {pid} thorough",
            "evidence_file": f"/verif/evidence/{pid}.json",
            "replay_cmd_template": f"./check {pid} quick --replay {{path}}",
            "engine": eng,
            "level_claimed": {"category": cat, "text": text, "design_ref": ref},
            "level_note": note,
            "technique": tech,
        })
    props = [json.loads(l)["id"] for l in open("/verif/properties.jsonl")]
    na_reasons = json.load(open("/verif/bin/not_applicable.json"))
    na = [{"property_id": p, "reason": na_reasons.get(p, "check not built yet in this session (planned in DESIGN.md §4); no claim is made")} for p in props if p not in CHECKS]
    m = {
        "version": 1,
        "setup_cmd": "bash /verif/bin/setup.sh",
        "hooks": {
            "guard": "verif-overlay",
            "enable": "no source hooks in /repo: instrumentation and in-package accessors are generated from the current working tree by /verif/tools/overlaygen and passed to `go build -overlay` (see DESIGN.md §2)",
            "baseline_off_cmd": "cd /repo && go build ./... && go test -vet=off -count=1 -timeout 25m ./...",
            "source_commits": [],
            "add_only": True,
        },
        "engines": [
            {"name": "xstate", "path": "/verif/harness/engine/xstate", "serves_properties": [p for p in sorted(CHECKS) if "xstate" in CHECKS[p]['engine']], "kind_free_text": "explicit-state BFS: state = history, successor = fresh real object + replay + one op, dedup by canonical private-state dump"},
            {"name": "sched", "path": "/verif/harness/engine/sched", "serves_properties": [p for p in sorted(CHECKS) if "sched" in CHECKS[p]['engine']], "kind_free_text": "cooperative scheduler (shim/vsched, vsync, vatomic, vclock, vsql) + stateless DFS with preemption/deviation bounding over overlay-instrumented sync/chan/atomic/go/time operations; violations replayed twice"},
            {"name": "crashfs", "path": "/verif/harness/shim/vos", "serves_properties": [p for p in sorted(CHECKS) if CHECKS[p]['engine'] == "crashfs" or "vos" in CHECKS[p]['engine']], "kind_free_text": "os-level shim (overlay rewrite of package os): records the mutating file-system calls of the code under test, kills the process at the k-th call, tears the crashing write, injects call errors; real recovery run on each crash state"},
            {"name": "enum", "path": "/verif/harness/engine/ev", "serves_properties": [p for p in sorted(CHECKS) if CHECKS[p]['engine'] in ("enum", "faultbackend")], "kind_free_text": "bounded-exhaustive enumeration written per check (grammar / layout / fault-set products, simplest first) on top of the shared ev runtime (violation classes, ddmin minimisation, known-findings matching, evidence, process sharding) against a reference model or DuckDB"},
        ],
        "checks": checks,
        "not_applicable": na,
        "notes": "Fixes to genuine defects are 'fix:' commits in /repo and are listed under 'fixed' in /verif/known_findings.json; recorded-not-fixed defects are under 'findings' there.",
    }
    json.dump(m, open("/verif/MANIFEST.json", "w"), indent=1)
    print("MANIFEST.json:", len(checks), "checks,", len(na), "not claimed")

main()
